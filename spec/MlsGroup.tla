------------------------------ MODULE MlsGroup ------------------------------
(***************************************************************************)
(* Core state machine of an MLS group as implemented by mls-rs             *)
(* (mls-rs/src/group/{mod,commit,message_processor,proposal_cache}.rs,     *)
(* tree_kem/{mod,kem,private,node}.rs).                                    *)
(*                                                                         *)
(* One action per public API call (= linearization point of the sequential *)
(* library).  Every action has an explicit outcome: "ok..." with the state *)
(* change, or "err:<class>" with the member state UNCHANGED.               *)
(*                                                                         *)
(* Symbolic cryptography: HPKE key pairs, epoch secrets are identifiers;   *)
(* a ciphertext sealed to key k is opened exactly by a holder of k.        *)
(*   key ids:  "g"            creator's first leaf key                     *)
(*             "kpL<i>"       leaf key of key package i                    *)
(*             "u<j>"         leaf key of update proposal j                *)
(*             "c<n>L"        committer leaf key of commit n               *)
(*             "c<n>n<x>"     key of node x set by the path of commit n    *)
(*   epoch secret id (ks): 0 for the creation epoch, else the commit id    *)
(***************************************************************************)
EXTENDS RatchetTree, TLC, Json, Integers

CONSTANTS
    Parties,        \* set of party names (strings)
    Creator,        \* the party that creates the group
    MaxCommits, MaxProps, MaxKps, MaxEpoch,   \* bounds on the registries (state constraint)
    PathRequiredChoices,                     \* subset of BOOLEAN: commit option path_required
    EncChoices,                              \* subset of BOOLEAN: handshake messages sent as PrivateMessage
    ByValueMax,                              \* max number of by-value proposals in one commit
    AllowConflicts,                          \* TRUE: generate update/remove conflicts on one leaf
    Features,                                \* subset of {"apps", "storage", "detached"}: optional action families
    Window,                                  \* out-of-order window of a message ratchet (1024 in mls-rs)
    Retention,                               \* number of prior epochs a storage provider retains
    MaxApps,                                 \* bound on application message bursts
    BurstSizes,                              \* sizes of application message bursts offered by Next
    PskIds,                                  \* external PSK identifiers
    PskValues,                               \* values a party may hold for a PSK id ("none" = does not hold it)
    CapX, CapY,                              \* parties whose clients support the optional extension types X / Y
    MaxSucc,                                 \* bound on successor groups (re-init / branch) created in a behaviour
    JitterChoices,                           \* max_epoch_jitter settings of the observer (99999 = not configured)
    Deviations                               \* named deviations of mls-rs from the properties that the model follows (known findings)

VARIABLES
    grp,        \* [Parties -> member state | NoGroup]
    zomb,       \* [Parties -> Seq(member state)]  retained groups of removed members
    kps,        \* Seq(key package record); id = index
    props,      \* Seq(proposal record); id = index          (the delivery service's log)
    commits,    \* Seq(commit record); id = index            (the delivery service's log)
    winner,     \* [epoch number -> commit id | 0] the commit the delivery service picked
    opt,        \* [pathReq |-> BOOLEAN, enc |-> BOOLEAN]
    repo,       \* [Parties -> [ins: Seq(prior epoch record), upd: Seq(prior epoch record)]]  GroupStateRepository
    store,      \* [Parties -> [snap: member state | NoGroup, epochs: Seq(prior epoch record)]]  GroupStateStorage
    apps,       \* Seq(application message burst); id = index
    det,        \* [Parties -> set of commit ids] detached commits (CommitSecrets held by the application)
    pskStore,   \* [Parties -> [PskIds -> PskValues]] the application's PSK store of each party (constant per behaviour)
    succ,       \* successor groups created by re-init or branch (resumption.rs): sequence of
                \* [kind, by, ks, members, kp, gid, ext, joined]
    obs,        \* the external observer (ExternalGroup): [st, epoch, ks, tree, ext, cache, frozen]
    hist,       \* history of steps for replay (hidden by VIEW)
    haux        \* per step: projection of the acting party's repository and storage after the step

vars == <<grp, zomb, kps, props, commits, winner, opt, repo, store, apps, det, pskStore, obs, succ, hist, haux>>
view == <<grp, zomb, kps, props, commits, winner, opt, repo, store, apps, det, pskStore, obs, succ>>

Str(i) == ToString(i)
KpLeafKey(i) == "kpL" \o Str(i)
KpInitKey(i) == "kpI" \o Str(i)
UpdKey(j) == "u" \o Str(j)
CommitLeafKey(n) == "c" \o Str(n) \o "L"
PathKey(n, x) == "c" \o Str(n) \o "n" \o Str(x)

NoSecrets == 99998              \* epoch-secret id of a prior-epoch record that holds no real secrets
NoLeaf == 99999                 \* "the committer is not a member" (external commit)
CommitterOf(c) == IF c.external THEN NoLeaf ELSE c.byLeaf
\* "newid": signature keys change in a fixed pattern that the replayer follows: every third Update proposal
\* (proposal id divisible by 3) and every third commit (commit id divisible by 3) carries a new signature key
\* of the same identity.  cv names the signature key of a leaf by its origin: 0 = the key of the key package /
\* group creation, 10000 + j = introduced by Update proposal j, 20000 + n = introduced by commit n.
NewSig(old, base, id) == IF "newid" \in Features /\ id % 3 = 0 THEN base + id ELSE old
NoGroup == [st |-> "none"]
HasGroup(p) == grp[p].st = "member"

Range(f) == {f[x] : x \in DOMAIN f}
SeqSet(s) == {s[i] : i \in 1..Len(s)}
Last(s) == s[Len(s)]

-----------------------------------------------------------------------------
(* Proposal items as they travel inside a commit (wire order within a type  *)
(* is preserved by ProposalBundle on both sides).                            *)
\*   [kind |-> "add", ref |-> propId|0, by |-> leaf, kp |-> kpId]
\*   [kind |-> "rem", ref |-> propId|0, by |-> leaf, target |-> leaf]
\*   [kind |-> "upd", ref |-> propId,   by |-> leaf, key |-> keyId, who, cv]
IsByRef(it) == it.ref # 0

ItemOfProp(j) ==
    LET pr == props[j] IN
    CASE pr.kind = "add" -> [kind |-> "add", ref |-> j, by |-> pr.byLeaf, kp |-> pr.kp]
      [] pr.kind = "rem" -> [kind |-> "rem", ref |-> j, by |-> pr.byLeaf, target |-> pr.target]
      [] pr.kind = "upd" -> [kind |-> "upd", ref |-> j, by |-> pr.byLeaf, key |-> UpdKey(j)]
      [] pr.kind = "psk" -> [kind |-> "psk", ref |-> j, by |-> pr.byLeaf, id |-> pr.id]
      [] pr.kind = "rpsk" -> [kind |-> "rpsk", ref |-> j, by |-> pr.byLeaf, epoch |-> pr.pe]
      [] pr.kind = "gce" -> [kind |-> "gce", ref |-> j, by |-> pr.byLeaf, ver |-> pr.ver]
      [] pr.kind = "reinit" -> [kind |-> "reinit", ref |-> j, by |-> pr.byLeaf]
      [] pr.kind = "custom" -> [kind |-> "custom", ref |-> j, by |-> pr.byLeaf, ver |-> pr.ver]

OfKind(items, k) == FilterSeq(items, LAMBDA it : it.kind = k)

(***************************************************************************)
(* ApplyProposals: GroupState::apply_resolved + ProposalApplier +          *)
(* TreeKemPublic::batch_edit.  mode = "send" drops by-reference offenders  *)
(* (FilterStrategy::IgnoreByRef), mode = "recv" fails on any offender.     *)
(* Returns [ok, err, tree, applied (items), added (seq of <<kp, leaf>>),   *)
(*          removed (set of leaves), updated (set of leaves)].             *)
(***************************************************************************)
Res(ok, err, tree, applied, added, removed, updated) ==
    [ok |-> ok, err |-> err, tree |-> tree, applied |-> applied, added |-> added,
     removed |-> removed, updated |-> updated]

\* offender handling: TRUE = keep, FALSE = drop, "err" = fail
Verdict(mode, it, valid) == IF valid THEN "keep" ELSE IF mode = "send" /\ IsByRef(it) THEN "drop" ELSE "err"

\* removes are applied in reverse bundle order (batch_edit)
RECURSIVE ApplyRemoves(_, _, _, _, _)
ApplyRemoves(mode, tree, rems, i, acc) ==
    \* acc = [tree, kept (seq, reverse order), err]
    IF i = 0 THEN acc
    ELSE LET it == rems[i]
             valid == it.target \in OccupiedLeaves(acc.tree)
             v == Verdict(mode, it, valid)
         IN IF v = "err" THEN [acc EXCEPT !.err = "rule:remove-nonmember"]
            ELSE IF v = "drop" THEN ApplyRemoves(mode, tree, rems, i - 1, acc)
            ELSE ApplyRemoves(mode, tree, rems, i - 1,
                    [acc EXCEPT !.tree = RemoveLeaf(acc.tree, it.target), !.kept = <<it>> \o acc.kept])

RECURSIVE ApplyUpdates(_, _, _, _)
ApplyUpdates(mode, upds, i, acc) ==
    \* acc = [tree, kept, err, leaves]
    IF i > Len(upds) THEN acc
    ELSE LET it == upds[i]
             valid == it.by \in OccupiedLeaves(acc.tree) /\ it.by \notin acc.leaves
             v == Verdict(mode, it, valid)
         IN IF v = "err" THEN [acc EXCEPT !.err = "rule:update-nonmember"]
            ELSE IF v = "drop" THEN ApplyUpdates(mode, upds, i + 1, acc)
            ELSE LET old == Node(acc.tree, 2 * it.by)
                     nl == MkLeaf(it.key, old.who, NewSig(old.cv, 10000, it.ref), "upd")
                 IN ApplyUpdates(mode, upds, i + 1,
                        [acc EXCEPT !.tree = UpdateLeaf(acc.tree, it.by, nl),
                                    !.kept = acc.kept \o <<it>>, !.leaves = acc.leaves \cup {it.by}])

\* Required capabilities (extension "caps").  The group-context-extensions value of the model is one number
\* ver + 1000 * code: code bit 0 / bit 1 say that the group's RequiredCapabilities extension lists X / Y.
\* A member's capabilities are those of its client (CapX, CapY); throw-away identities support everything.
ReqOf(ext) == (IF (ext \div 1000) % 2 = 1 THEN {"X"} ELSE {}) \cup (IF (ext \div 1000) >= 2 THEN {"Y"} ELSE {})
CapsOf(who) == IF who \notin Parties THEN {"X", "Y"}
               ELSE (IF who \in CapX THEN {"X"} ELSE {}) \cup (IF who \in CapY THEN {"Y"} ELSE {})
AllSupport(tree, req) == \A l \in OccupiedLeaves(tree) : req \subseteq CapsOf(Node(tree, 2 * l).who)

RECURSIVE ApplyAdds(_, _, _, _, _)
ApplyAdds(mode, req, adds, i, acc) ==
    \* acc = [tree, kept, err, added, start]
    IF i > Len(adds) THEN acc
    ELSE LET it == adds[i]
             kp == kps[it.kp]
             valid == kp.bad = "" /\ kp.owner \notin Members(acc.tree) /\ it.kp \notin {a[1] : a \in SeqSet(acc.added)}
                      /\ req \subseteq CapsOf(kp.owner)          \* the key package supports what the (new) context requires
             v == Verdict(mode, it, valid)
         IN IF v = "err" THEN [acc EXCEPT !.err = "rule:add-duplicate"]
            ELSE IF v = "drop" THEN ApplyAdds(mode, req, adds, i + 1, acc)
            ELSE LET l == NextEmptyLeaf(acc.tree, acc.start)
                     nl == MkLeaf(KpLeafKey(it.kp), kp.owner, kp.cv, "kp")
                 IN ApplyAdds(mode, req, adds, i + 1,
                        [acc EXCEPT !.tree = AddLeafAt(acc.tree, l, nl), !.kept = acc.kept \o <<it>>,
                                    !.added = acc.added \o <<<<it.kp, l>>>>, !.start = l])

(* PSK, group-context-extension and re-init proposals (filtering.rs,          *)
(* filtering_common.rs filter_out_invalid_psks).  `who` is the party that    *)
(* evaluates the rules: the committer when sending, the receiver otherwise. *)
\*   [kind |-> "psk",  ref, by, id]       external PSK: valid iff `who` holds a value for id
\*   [kind |-> "rpsk", ref, by, epoch]    resumption PSK of a past epoch: valid iff `who` still retains it
\*   [kind |-> "gce",  ref, by, ver]      new group context extensions; at most one per commit
\*   [kind |-> "reinit", ref, by]         re-initialisation; must be the only proposal
\*   [kind |-> "extinit", ref, by]        external initialisation: only in an external commit (new-member sender),
\*                                        which carries exactly one, by value, plus at most one removal of the joiner's
\*                                        own former leaf and PSKs (filtering_common.rs apply_proposals_from_new_member)
\*   [kind |-> "custom", ref, by, ver]    application-defined proposal of a type every member supports and that the
\*                                        rules do not list as path-requiring: always valid, no effect on the group
HoldsPsk(who, id) == pskStore[who][id] # "none"

RetainsEpoch(who, e) ==
    \/ (grp[who].st = "member" /\ grp[who].epoch = e)
    \/ \E i \in 1..Len(repo[who].ins) : repo[who].ins[i].epoch = e
    \/ (~(repo[who].ins # <<>> /\ e >= repo[who].ins[1].epoch) /\
          (\/ \E i \in 1..Len(repo[who].upd) : repo[who].upd[i].epoch = e
           \/ \E i \in 1..Len(store[who].epochs) : store[who].epochs[i].epoch = e))

\* a receiver resolves resumption PSKs only when it derives the key schedule (after the self-removal test),
\* not while validating the proposal list
\* (mode "obs": an external observer has no secrets; PSKs are "always found" for it)
PskValid(mode, who, it) ==
    IF mode = "obs" THEN TRUE
    ELSE IF it.kind = "psk" THEN HoldsPsk(who, it.id) ELSE (mode = "recv" \/ RetainsEpoch(who, it.epoch))

RECURSIVE FilterPsks(_, _, _, _, _)
FilterPsks(mode, who, psks, i, acc) ==   \* acc = [kept, err]
    IF i > Len(psks) THEN acc
    ELSE LET v == Verdict(mode, psks[i], PskValid(mode, who, psks[i])) IN
         IF v = "err" THEN [acc EXCEPT !.err = "rule:psk-unknown"]
         \* Named deviation F12 (known finding, DESIGN section 6): mls-rs does not drop a by-reference
         \* resumption PSK whose epoch the committer no longer retains; building the commit fails instead.
         ELSE IF v = "drop" /\ psks[i].kind = "rpsk" /\ "F12" \in Deviations THEN [acc EXCEPT !.err = "rule:psk-unknown:F12"]
         ELSE IF v = "drop" THEN FilterPsks(mode, who, psks, i + 1, acc)
         ELSE FilterPsks(mode, who, psks, i + 1, [acc EXCEPT !.kept = acc.kept \o <<psks[i]>>])

RECURSIVE FilterGces(_, _, _, _)
FilterGces(mode, gces, i, acc) ==        \* only the first one survives
    IF i > Len(gces) THEN acc
    ELSE LET v == Verdict(mode, gces[i], acc.kept = <<>>) IN
         IF v = "err" THEN [acc EXCEPT !.err = "rule:gce-more-than-one"]
         ELSE IF v = "drop" THEN FilterGces(mode, gces, i + 1, acc)
         ELSE FilterGces(mode, gces, i + 1, [acc EXCEPT !.kept = acc.kept \o <<gces[i]>>])

\* filter_out_reinit_if_other_proposals: decided on the bundle before the tree is edited
FilterReinit(mode, items) ==
    LET reinits == OfKind(items, "reinit")
        others == SelectSeq(items, LAMBDA it : it.kind # "reinit")
    IN IF reinits = <<>> \/ Len(items) = 1 THEN [items |-> items, err |-> ""]
       ELSE IF mode = "recv" \/ \E i \in 1..Len(reinits) : ~IsByRef(reinits[i])
            THEN [items |-> items, err |-> "rule:reinit-not-alone"]
       ELSE IF others # <<>> THEN [items |-> others, err |-> ""]
       ELSE [items |-> <<reinits[1]>>, err |-> ""]

RECURSIVE ApplyProposals(_, _, _, _, _, _)
ApplyProposals(mode, who, tree, committer, items0, ext0) ==
    LET \* proposer / committer rules (filtering.rs)
        items == items0
        updNotCommitter == FilterSeq(items, LAMBDA it : ~(it.kind = "upd" /\ it.by = committer /\ Verdict(mode, it, FALSE) = "drop"))
        bad1 == \E i \in 1..Len(items) : items[i].kind = "upd" /\ items[i].by = committer /\ Verdict(mode, items[i], FALSE) = "err"
        remNotCommitter == FilterSeq(updNotCommitter, LAMBDA it : ~(it.kind = "rem" /\ it.target = committer /\ Verdict(mode, it, FALSE) = "drop"))
        bad2 == \E i \in 1..Len(updNotCommitter) : updNotCommitter[i].kind = "rem" /\ updNotCommitter[i].target = committer
                    /\ Verdict(mode, updNotCommitter[i], FALSE) = "err"
        pk == FilterPsks(mode, who, SelectSeq(remNotCommitter, LAMBDA it : it.kind \in {"psk", "rpsk"}), 1, [kept |-> <<>>, err |-> ""])
        gc == FilterGces(mode, OfKind(remNotCommitter, "gce"), 1, [kept |-> <<>>, err |-> ""])
        \* what is left of the bundle after the PSK and GCE rules, in bundle order per type
        afterRules == SelectSeq(remNotCommitter, LAMBDA it : it.kind \in {"add", "rem", "upd", "reinit", "extinit"}) \o pk.kept \o gc.kept
                      \o OfKind(remNotCommitter, "custom")
        ri == FilterReinit(mode, afterRules)
        its == ri.items
        rems == OfKind(its, "rem")
        r1 == ApplyRemoves(mode, tree, rems, Len(rems), [tree |-> tree, kept |-> <<>>, err |-> ""])
        r2 == ApplyUpdates(mode, OfKind(its, "upd"), 1, [tree |-> r1.tree, kept |-> <<>>, err |-> "", leaves |-> {}])
        \* apply_proposals_with_new_capabilities: adds are judged in the context of the new extensions; afterwards
        \* every member of the resulting tree must support what the new extensions require.  If not, a by-value
        \* (or received) GCE fails the commit; a by-reference one is dropped by the sender and everything is applied
        \* again in the context of the old extensions
        gkept == OfKind(its, "gce")
        ctxReq == ReqOf(IF gkept # <<>> THEN gkept[1].ver ELSE ext0)
        r3 == ApplyAdds(mode, ctxReq, OfKind(its, "add"), 1, [tree |-> r2.tree, kept |-> <<>>, err |-> "", added |-> <<>>, start |-> 0])
        gceBad == gkept # <<>> /\ ~AllSupport(r3.tree, ctxReq)
        \* bundle order: adds, removes, updates, psks, gce, reinit
        applied == r3.kept \o r1.kept \o r2.kept \o SelectSeq(its, LAMBDA it : it.kind \in {"psk", "rpsk"})
                   \o OfKind(its, "gce") \o OfKind(its, "reinit") \o OfKind(its, "extinit") \o OfKind(its, "custom")
    IN IF bad1 THEN Res(FALSE, "rule:update-by-committer", tree, <<>>, <<>>, {}, {})
       ELSE IF bad2 THEN Res(FALSE, "rule:remove-committer", tree, <<>>, <<>>, {}, {})
       ELSE IF pk.err # "" THEN Res(FALSE, pk.err, tree, <<>>, <<>>, {}, {})
       ELSE IF gc.err # "" THEN Res(FALSE, gc.err, tree, <<>>, <<>>, {}, {})
       ELSE IF ri.err # "" THEN Res(FALSE, ri.err, tree, <<>>, <<>>, {}, {})
       ELSE IF r1.err # "" THEN Res(FALSE, r1.err, tree, <<>>, <<>>, {}, {})
       ELSE IF r2.err # "" THEN Res(FALSE, r2.err, tree, <<>>, <<>>, {}, {})
       ELSE IF r3.err # "" THEN Res(FALSE, r3.err, tree, <<>>, <<>>, {}, {})
       ELSE IF gceBad /\ Verdict(mode, gkept[1], FALSE) = "err" THEN Res(FALSE, "rule:gce-unsupported", tree, <<>>, <<>>, {}, {})
       ELSE IF gceBad THEN ApplyProposals(mode, who, tree, committer, SelectSeq(items0, LAMBDA it : it.kind # "gce"), ext0)
       ELSE Res(TRUE, "", Trim(r3.tree), applied, r3.added,
                {it.target : it \in SeqSet(r1.kept)}, r2.leaves)

\* path_update_required (proposal_filter.rs): nothing at all, or an update / remove / GCE
\* (a custom proposal neither requires a path by itself nor lifts the requirement of the others)
PathNeeded(applied) == applied = <<>> \/ \E i \in 1..Len(applied) : applied[i].kind \in {"upd", "rem", "gce"}

PsksOf(applied) == SelectSeq(applied, LAMBDA it : it.kind \in {"psk", "rpsk"})
HasReinit(applied) == \E i \in 1..Len(applied) : applied[i].kind = "reinit"
NewExt(applied, old) == LET g == OfKind(applied, "gce") IN IF g = <<>> THEN old ELSE g[1].ver

-----------------------------------------------------------------------------
(* Private keys.  priv is a function from node indices to key ids.          *)
RestrictFn(f, S) == [x \in (DOMAIN f \cap S) |-> f[x]]
MergeFn(f, g) == [x \in (DOMAIN f \cup DOMAIN g) |-> IF x \in DOMAIN g THEN g[x] ELSE f[x]]

NonBlankNodes(tree) == {x \in 0..(Len(tree) - 1) : ~IsBlank(Node(tree, x))}

\* Group::provisional_private_tree: drop keys of nodes blanked by the proposals; an applied own
\* update replaces the leaf key and clears the rest.
ProvisionalPriv(g, newTree, applied) ==
    LET own == {i \in 1..Len(applied) : applied[i].kind = "upd" /\ applied[i].by = g.leaf} IN
    IF own # {} THEN LET it == applied[CHOOSE i \in own : TRUE] IN (2 * g.leaf :> it.key)
    ELSE RestrictFn(g.priv, NonBlankNodes(newTree) \cup {2 * g.leaf})

\* TreeKem::encap on the tree after proposals: fresh keys on the filtered direct path
EncapKeys(n, tree, leaf) ==
    LET fdp == FilteredDirectPath(tree, leaf) IN [x \in SeqSet(fdp) |-> PathKey(n, x)]

\* recipients of the path secret of direct-path node x: resolution of its copath child minus new leaves
CopathChildOf(tree, leaf, x) ==
    LET dp == DirectPathOf(tree, leaf)  cp == CopathOf(tree, leaf) IN cp[IndexOf(dp, x)]

Recipients(tree, leaf, x, addedLeaves) ==
    FilterSeq(Resolution(tree, CopathChildOf(tree, leaf, x)), LAMBDA y : ~(IsLeafNode(y) /\ (y \div 2) \in addedLeaves))

(* TreeKem::decap for receiver (leaf r, private keys priv) of the path of    *)
(* committer c on tree (path already installed).  Returns the node whose    *)
(* key opens the ciphertext and the key id the ciphertext was sealed to,    *)
(* or ok = FALSE.                                                           *)
RECURSIVE WalkDown(_, _, _, _)
WalkDown(tree, dpr, i, r) ==   \* first non-blank node at position <= i of <<leaf>> \o direct path
    IF i = 0 THEN 2 * r
    ELSE IF ~IsBlank(Node(tree, dpr[i])) THEN dpr[i] ELSE WalkDown(tree, dpr, i - 1, r)

Decap(tree, c, r, priv, recips, addedLeaves) ==
    LET n == LeafCount(tree)
        lca == CommonAncestor(c, r, n)
        dpr == DirectPathOf(tree, r)
        lvl == Level(lca, n)                 \* direct path position of the LCA
        below == WalkDown(tree, dpr, lvl - 1, r)
        resolved == IF below \in DOMAIN priv THEN below ELSE 2 * r
        cpChild == IF lvl = 1 THEN 2 * r ELSE dpr[lvl - 1]
        reso == FilterSeq(Resolution(tree, cpChild), LAMBDA y : ~(IsLeafNode(y) /\ (y \div 2) \in addedLeaves))
        pos == IndexOf(reso, resolved)
    IN IF lca \notin DOMAIN recips THEN [ok |-> FALSE, why |-> "lca-filtered"]
       ELSE IF pos = 0 \/ pos > Len(recips[lca]) THEN [ok |-> FALSE, why |-> "not-in-resolution"]
       ELSE IF resolved \notin DOMAIN priv THEN [ok |-> FALSE, why |-> "no-key"]
       ELSE IF priv[resolved] # recips[lca][pos] THEN [ok |-> FALSE, why |-> "wrong-key"]
       ELSE [ok |-> TRUE, lca |-> lca]

\* keys a receiver / joiner learns: path nodes of the commit that are ancestors of its leaf at or above the LCA
LearnedKeys(tree, c, r, pathKeys) ==
    LET n == LeafCount(tree)
        lvl == Level(CommonAncestor(c, r, n), n)
        dpr == DirectPathOf(tree, r)
    IN [x \in {y \in DOMAIN pathKeys : \E i \in lvl..Len(dpr) : dpr[i] = y} |-> pathKeys[x]]

-----------------------------------------------------------------------------
(* Projection: what the harness can observe of a member; same shape as      *)
(* project() in harness/src/project.rs.                                     *)
ProjNode(nd) ==
    CASE nd.t = "B" -> [t |-> "B"]
      [] nd.t = "L" -> [t |-> "L", k |-> nd.k, who |-> nd.who, cv |-> nd.cv, src |-> nd.src]
      [] nd.t = "P" -> [t |-> "P", k |-> nd.k, um |-> nd.um]

SetToSortedSeq(S) ==
    LET RECURSIVE F(_)
        F(T) == IF T = {} THEN <<>> ELSE LET m == CHOOSE x \in T : \A y \in T : x <= y IN <<m>> \o F(T \ {m})
    IN F(S)

Proj(g) ==
    IF g.st = "none" THEN [st |-> "none"]
    ELSE [st |-> g.st, epoch |-> g.epoch, ks |-> g.ks, leaf |-> g.leaf,
          tree |-> [i \in 1..Len(g.tree) |-> ProjNode(g.tree[i])],
          priv |-> LET ns == SetToSortedSeq(DOMAIN g.priv) IN [i \in 1..Len(ns) |-> <<ns[i], g.priv[ns[i]]>>],
          cache |-> SetToSortedSeq(g.cache),
          pend |-> g.pend, ext |-> g.ext]

Step(a, p, args, res, out) ==
    [a |-> a, p |-> p, args |-> args, res |-> res, out |-> out, post |-> Proj(grp'[p])]

Record(a, p, args, res, out) == hist' = Append(hist, Step(a, p, args, res, out))

-----------------------------------------------------------------------------
(* Message ratchets (secret_tree.rs SecretKeyRatchet): next generation + retained skipped ones. *)
NoRatchet == [next |-> 0, hist |-> {}]
RatchetOf(recv, l) == IF l \in DOMAIN recv THEN recv[l] ELSE NoRatchet

\* outcome of asking ratchet r for generation gen
RatchetVerdict(r, gen) ==
    IF gen < r.next THEN (IF gen \in r.hist THEN "ok" ELSE "err:replay")
    ELSE IF gen > r.next + Window THEN "err:future"
    ELSE "ok"

RatchetAfter(r, gen) ==
    IF gen < r.next THEN [r EXCEPT !.hist = @ \ {gen}]
    ELSE [next |-> gen + 1, hist |-> r.hist \cup (r.next..(gen - 1))]

(* Prior epochs (mls-rs/src/group/state_repo.rs, epoch.rs PriorEpoch).           *)
PastRec(g) ==
    [ks |-> g.ks, epoch |-> g.epoch, leaf |-> g.leaf, recv |-> g.recv,
     who |-> [l \in OccupiedLeaves(g.tree) |-> Node(g.tree, 2 * l).who],
     sig |-> [l \in OccupiedLeaves(g.tree) |-> Node(g.tree, 2 * l).cv]]

\* GroupStateRepository::insert accepts the epoch that is left only if it continues the stored history
\* (id = last queued or stored id + 1).  That holds in every history of one membership.  Named deviation
\* F14 (known finding): a party that was removed and joins again with the storage of its former membership
\* finds unrelated old epoch ids there and every later epoch change fails with InvalidEpoch.
InsertContinues(p) ==
    \/ repo[p].ins # <<>>
    \/ store[p].epochs = <<>>
    \/ store[p].epochs[Len(store[p].epochs)].epoch + 1 = grp[p].epoch
StuckF14(p) == "F14" \in Deviations /\ ~InsertContinues(p)

\* Group::insert_past_epoch: processing a commit queues the epoch that is left
RepoFollows(p) ==
    repo' = IF grp[p].st = "member" /\ grp'[p].st = "member" /\ grp'[p].ks # grp[p].ks
            THEN [repo EXCEPT ![p].ins = Append(@, PastRec(grp[p]))]
            ELSE repo

Init ==
    /\ \E pr \in PathRequiredChoices, en \in EncChoices, j \in JitterChoices : opt = [pathReq |-> pr, enc |-> en, jit |-> j]
    /\ grp = [p \in Parties |->
                IF p = Creator
                THEN [st |-> "member", epoch |-> 0, ks |-> 0, leaf |-> 0,
                      tree |-> <<MkLeaf("g", Creator, 0, "kp")>>,
                      priv |-> (0 :> "g"), cache |-> {}, pend |-> 0, pendUpd |-> {}, seenC |-> {}, sendGen |-> 0, recv |-> <<>>, hsSend |-> 0, hsRecv |-> <<>>, ext |-> 0, frozen |-> FALSE]
                ELSE NoGroup]
    /\ zomb = [p \in Parties |-> <<>>]
    /\ kps = <<>> /\ props = <<>> /\ commits = <<>>
    /\ winner = [e \in 0..MaxEpoch |-> 0]
    /\ repo = [p \in Parties |-> [ins |-> <<>>, upd |-> <<>>]]
    /\ store = [p \in Parties |-> [snap |-> NoGroup, epochs |-> <<>>, sql |-> <<>>]]
    /\ apps = <<>>
    /\ det = [p \in Parties |-> {}]
    /\ pskStore \in [Parties -> [PskIds -> PskValues]]
    /\ obs = [st |-> "off"]
    /\ succ = <<>>
    /\ hist = <<>>
    /\ haux = <<>>

\* ---- key packages ----
\* lr: a last-resort key package (LastResortKeyPackageExt): joining with it does not use it up, its private keys
\* stay in the owner's store, and the owner can be added again with the same package
IsLr(i) == "lr" \in DOMAIN kps[i]
LrChoices == IF "lastresort" \in Features THEN BOOLEAN ELSE {FALSE}
GenKeyPackage(p, lr) ==
    /\ Len(kps) < MaxKps /\ lr \in LrChoices
    /\ ~HasGroup(p)
    /\ ~\E i \in 1..Len(kps) : kps[i].owner = p /\ ~kps[i].used      \* one outstanding package per party
    /\ kps' = Append(kps, IF lr THEN [owner |-> p, cv |-> 0, used |-> FALSE, bad |-> "", lr |-> TRUE]
                                 ELSE [owner |-> p, cv |-> 0, used |-> FALSE, bad |-> ""])
    /\ UNCHANGED <<grp, zomb, props, commits, winner, opt, repo, store, apps, det>>
    /\ Record("GenKeyPackage", p, [kp |-> Len(kps) + 1, bad |-> "", lr |-> lr], "ok", [x |-> 0])

\* a key package nobody may add: expired lifetime, or a credential the application's identity provider
\* rejects (key_package/validator.rs, leaf_node_validator.rs); owned by a throw-away identity
GenBadKeyPackage(p, why) ==
    /\ "badkp" \in Features /\ Len(kps) < MaxKps /\ why \in {"expired", "cred"}
    /\ ~\E i \in 1..Len(kps) : kps[i].bad = why /\ ~kps[i].used
    /\ kps' = Append(kps, [owner |-> "bad", cv |-> 0, used |-> FALSE, bad |-> why])
    /\ UNCHANGED <<grp, zomb, props, commits, winner, opt, repo, store, apps, det>>
    /\ Record("GenKeyPackage", p, [kp |-> Len(kps) + 1, bad |-> why, lr |-> FALSE], "ok", [x |-> 0])

\* ---- proposals (by reference) ----
\* who signed a proposal: a member (default), the external sender, or a party proposing its own addition
SenderOf(pr) == IF "sender" \in DOMAIN pr THEN pr.sender ELSE "member"

NewProp(pr) ==
    /\ Len(props) < MaxProps
    /\ props' = Append(props, pr)

Propose(p, pr, argrec) ==
    LET g == grp[p]  j == Len(props) + 1 IN
    /\ HasGroup(p)
    /\ NewProp(pr @@ [by |-> p, byLeaf |-> g.leaf, ks |-> g.ks, epoch |-> g.epoch, gen |-> g.hsSend])
    /\ grp' = [grp EXCEPT ![p].cache = @ \cup {j},
                          ![p].pendUpd = IF pr.kind = "upd" THEN @ \cup {j} ELSE @,
                          ![p].hsSend = IF opt.enc THEN @ + 1 ELSE @]
    /\ Record("Propose", p, argrec @@ [prop |-> j, kind |-> pr.kind], "ok", [x |-> 0])
    /\ UNCHANGED <<zomb, kps, commits, winner, opt, repo, store, apps, det>>

ProposeAdd(p, i) ==
    /\ i \in 1..Len(kps) /\ ~kps[i].used
    /\ HasGroup(p)
    \* a key package of somebody who is a member already may be proposed too (the proposal is dropped by the
    \* committer: duplicate identity), any number of them, each (proposer, key package) once per epoch; of the others
    \* at most one per epoch (DESIGN 3.4: leaf assignment follows the hash order of the proposal cache)
    /\ IF kps[i].owner \in Members(grp[p].tree)
       THEN ~\E j \in 1..Len(props) : props[j].kind = "add" /\ props[j].ks = grp[p].ks /\ props[j].kp = i /\ props[j].by = p
       ELSE ~\E j \in 1..Len(props) : props[j].kind = "add" /\ props[j].ks = grp[p].ks /\ kps[props[j].kp].owner \notin Members(grp[p].tree)
    /\ Propose(p, [kind |-> "add", kp |-> i, target |-> 0], [kp |-> i])

ProposeRemove(p, l) ==
    /\ HasGroup(p) /\ l \in OccupiedLeaves(grp[p].tree) /\ l # grp[p].leaf
    \* an identical proposal (same sender, content and epoch) is the same message with a deterministic
    \* signature scheme: the model keeps proposals distinct
    \* (and at most one by-reference removal per leaf and epoch: which of two duplicates the committer
    \* keeps depends on the implementation's hash-map order, DESIGN 3.4)
    /\ ~\E j \in 1..Len(props) : props[j].kind = "rem" /\ props[j].target = l /\ props[j].ks = grp[p].ks
    /\ Propose(p, [kind |-> "rem", kp |-> 0, target |-> l], [target |-> l])

ProposeUpdate(p) ==
    /\ HasGroup(p)
    \* at most one by-reference update per leaf and epoch secret (also across a reload of the proposer, which forgets
    \* its own pending update): which of two the committer keeps depends on the hash-map order of its cache
    /\ (AllowConflicts \/ (grp[p].pendUpd = {} /\ ~\E j \in 1..Len(props) : props[j].kind = "upd" /\ props[j].by = p /\ props[j].ks = grp[p].ks))
    /\ Propose(p, [kind |-> "upd", kp |-> 0, target |-> 0], [x |-> 0])

ProposePsk(p, id) ==
    /\ "psk" \in Features /\ HasGroup(p) /\ id \in PskIds
    /\ Propose(p, [kind |-> "psk", kp |-> 0, target |-> 0, id |-> id], [id |-> id])

ProposeResumptionPsk(p, e) ==
    /\ "psk" \in Features /\ HasGroup(p) /\ e \in 0..grp[p].epoch
    /\ Propose(p, [kind |-> "rpsk", kp |-> 0, target |-> 0, pe |-> e], [pe |-> e])

ReqCodes == IF "caps" \in Features THEN 0..3 ELSE {0}
ProposeGce(p, code) ==
    /\ "gce" \in Features /\ HasGroup(p) /\ code \in ReqCodes
    \* at most one by-reference GCE per epoch: which of two the committer keeps depends on hash-map order
    /\ ~\E j \in 1..Len(props) : props[j].kind = "gce" /\ props[j].ks = grp[p].ks
    /\ Propose(p, [kind |-> "gce", kp |-> 0, target |-> 0, ver |-> Len(props) + 1 + 1000 * code], [ver |-> Len(props) + 1 + 1000 * code])

ProposeCustom(p) ==
    /\ "custom" \in Features /\ HasGroup(p)
    /\ Propose(p, [kind |-> "custom", kp |-> 0, target |-> 0, ver |-> Len(props) + 1], [ver |-> Len(props) + 1])

ProposeReinit(p) ==
    /\ "reinit" \in Features /\ HasGroup(p)
    \* at most one by-reference re-init per epoch: which of two the committer keeps (truncate(1) of the bundle)
    \* depends on the hash order of its proposal cache
    /\ ~\E j \in 1..Len(props) : props[j].kind = "reinit" /\ props[j].ks = grp[p].ks
    /\ Propose(p, [kind |-> "reinit", kp |-> 0, target |-> 0], [x |-> 0])

\* Client::external_add_proposal: a party that is not a member asks to be added (sender new_member_proposal);
\* it generates the key package on the spot, from the GroupInfo and tree published by member r
NewMemberPropose(q, r) ==
    LET j == Len(props) + 1  i == Len(kps) + 1 IN
    /\ "newmember" \in Features /\ ~HasGroup(q) /\ HasGroup(r) /\ q \notin Members(grp[r].tree)
    /\ Len(kps) < MaxKps
    /\ ~\E k \in 1..Len(kps) : kps[k].owner = q /\ ~kps[k].used
    /\ ~\E k \in 1..Len(props) : props[k].kind = "add" /\ props[k].ks = grp[r].ks
    /\ kps' = Append(kps, [owner |-> q, cv |-> 0, used |-> FALSE, bad |-> ""])
    /\ NewProp([kind |-> "add", kp |-> i, target |-> 0, by |-> q, sender |-> "newmember", byLeaf |-> NoLeaf,
                ks |-> grp[r].ks, epoch |-> grp[r].epoch, gen |-> 0])
    /\ UNCHANGED <<grp, zomb, commits, winner, opt, repo, store, apps, det>>
    /\ Record("NewMemberPropose", q, [from |-> r, kp |-> i, prop |-> j], "ok", [x |-> 0])

\* a member receives a proposal message
DeliverProposal(q, j) ==
    LET g == grp[q]  pr == props[j] IN
    /\ j \in 1..Len(props) /\ HasGroup(q) /\ pr.by # q
    /\ j \notin g.cache
    /\ IF pr.ks = g.ks /\ pr.epoch = g.epoch
       THEN LET r == RatchetOf(g.hsRecv, pr.byLeaf)
                \* proposals of non-members are always PublicMessages
                enc == opt.enc /\ SenderOf(pr) = "member"
                v == IF enc THEN RatchetVerdict(r, pr.gen) ELSE "ok"
            IN IF v = "ok"
               THEN /\ grp' = [grp EXCEPT ![q].cache = @ \cup {j},
                                          ![q].hsRecv = IF enc THEN (pr.byLeaf :> RatchetAfter(r, pr.gen)) @@ @ ELSE @]
                    /\ Record("DeliverProposal", q, [prop |-> j], "ok", [x |-> 0])
               ELSE \* an encrypted proposal whose handshake generation was already used by this sender
                    \* (the sender was rolled back to an older snapshot) is a replay for the receiver
                    /\ UNCHANGED grp
                    /\ Record("DeliverProposal", q, [prop |-> j], v, [x |-> 0])
       ELSE /\ UNCHANGED grp
            /\ Record("DeliverProposal", q, [prop |-> j], "err:epoch", [x |-> 0])
    /\ UNCHANGED <<zomb, kps, props, commits, winner, opt, repo, store, apps, det>>

\* ---- commit construction (Group::commit_internal) ----
ByValueItems(g) ==
    \* candidate by-value proposals: add of an unused package, removal of a leaf (also invalid ones)
    {[kind |-> "add", ref |-> 0, by |-> g.leaf, kp |-> i] : i \in {i \in 1..Len(kps) : ~kps[i].used}}
    \cup {[kind |-> "rem", ref |-> 0, by |-> g.leaf, target |-> l] : l \in LeafSlots(g.tree)}
    \cup (IF "psk" \in Features THEN {[kind |-> "psk", ref |-> 0, by |-> g.leaf, id |-> id] : id \in PskIds}
                                        \cup {[kind |-> "rpsk", ref |-> 0, by |-> g.leaf, epoch |-> e] : e \in 0..g.epoch} ELSE {})
    \cup (IF "gce" \in Features THEN {[kind |-> "gce", ref |-> 0, by |-> g.leaf, ver |-> 100 + Len(commits) + 1000 * code] : code \in ReqCodes} ELSE {})
    \cup (IF "reinit" \in Features THEN {[kind |-> "reinit", ref |-> 0, by |-> g.leaf]} ELSE {})
    \cup (IF "custom" \in Features THEN {[kind |-> "custom", ref |-> 0, by |-> g.leaf, ver |-> 100 + Len(commits)]} ELSE {})

ByValueSeqs(g) ==
    {<<>>} \cup (IF ByValueMax >= 1 THEN {<<a>> : a \in ByValueItems(g)} ELSE {})
    \cup (IF ByValueMax >= 2 THEN {<<a, b>> : a \in ByValueItems(g), b \in ByValueItems(g)} ELSE {})
    \cup (IF ByValueMax >= 3 THEN {<<a, b, c>> : a \in ByValueItems(g), b \in ByValueItems(g), c \in ByValueItems(g)} ELSE {})

CachedItems(g) ==
    \* by-reference proposals in the committer's cache; order within a type is the hash-map order of the
    \* implementation: the model fixes ascending proposal id and the configurations keep at most one
    \* by-reference add per commit (DESIGN 3.4)
    LET ids == SetToSortedSeq(g.cache) IN [i \in 1..Len(ids) |-> ItemOfProp(ids[i])]

Commit(p, byval, dt) ==
    LET g == grp[p]
        act == IF dt THEN "CommitDetached" ELSE "Commit"
        n == Len(commits) + 1
        items == CachedItems(g) \o byval
        ar == ApplyProposals("send", p, g.tree, g.leaf, items, g.ext)
        args == [byval |-> byval]
    IN
    /\ HasGroup(p) /\ Len(commits) < MaxCommits /\ g.epoch < MaxEpoch
    /\ (dt => "detached" \in Features)
    \* generator restriction (DESIGN 3.4): at most one cached by-reference add that can take effect -- its owner is
    \* no member, or is removed by this very commit; adds for sitting members are dropped in whatever order
    /\ LET gone == {Node(g.tree, 2 * items[i].target).who : i \in {i \in 1..Len(items) : items[i].kind = "rem" /\ items[i].target \in OccupiedLeaves(g.tree)}}
       IN Cardinality({j \in g.cache : props[j].kind = "add" /\ (kps[props[j].kp].owner \notin Members(g.tree) \/ kps[props[j].kp].owner \in gone)}) <= 1
    /\ IF \E i \in 1..Len(byval) : byval[i].kind = "rem" /\ byval[i].target \notin OccupiedLeaves(g.tree)
       THEN \* CommitBuilder::remove_member validates the index against the current tree
            /\ UNCHANGED <<grp, commits, det>>
            /\ Record(act, p, args, "err:rule:remove-nonmember", [x |-> 0])
       ELSE IF g.pend # 0
       THEN /\ UNCHANGED <<grp, commits, det>>
            /\ Record(act, p, args, "err:pending-exists", [x |-> 0])
       ELSE IF g.frozen
       THEN /\ UNCHANGED <<grp, commits, det>>
            /\ Record(act, p, args, "err:frozen", [x |-> 0])
       ELSE IF ~ar.ok
       THEN /\ UNCHANGED <<grp, commits, det>>
            /\ Record(act, p, args, "err:" \o ar.err, [x |-> 0])
       ELSE
         \* "newid": every third commit of a behaviour also changes the committer's signing key (same identity,
         \* CommitBuilder::set_new_signing_identity); the key lives in the committer's leaf, so the commit carries a path
         LET withPath == opt.pathReq \/ PathNeeded(ar.applied) \/ ("newid" \in Features /\ n % 3 = 0)
             priv0 == ProvisionalPriv(g, ar.tree, ar.applied)
             addedLeaves == {a[2] : a \in SeqSet(ar.added)}
             pathKeys == IF withPath THEN EncapKeys(n, ar.tree, g.leaf) ELSE <<>>
             old == Node(ar.tree, 2 * g.leaf)
             newLeaf == MkLeaf(CommitLeafKey(n), old.who, NewSig(old.cv, 20000, n), "commit")
             tree1 == IF withPath THEN ApplyPath(ar.tree, g.leaf, newLeaf, pathKeys) ELSE ar.tree
             recips == [x \in DOMAIN pathKeys |->
                          LET rs == Recipients(tree1, g.leaf, x, addedLeaves) IN [i \in 1..Len(rs) |-> Node(tree1, rs[i]).k]]
             newPriv == IF withPath
                        THEN MergeFn(RestrictFn(priv0, {}), MergeFn(pathKeys, (2 * g.leaf :> CommitLeafKey(n))))
                        ELSE priv0
             unused == {j \in g.cache : ~\E i \in 1..Len(ar.applied) : ar.applied[i].ref = j}
             c == [by |-> p, byLeaf |-> g.leaf, baseKs |-> g.ks, baseEpoch |-> g.epoch,
                   items |-> ar.applied, path |-> withPath, pathKeys |-> pathKeys, recips |-> recips,
                   added |-> ar.added, removed |-> ar.removed, newTree |-> tree1, newPriv |-> newPriv,
                   unused |-> unused, gen |-> g.hsSend,
                   \* PSKs in wire order with the values the committer used (external) / the epoch referenced
                   psks |-> LET ps == PsksOf(ar.applied) IN
                            [i \in 1..Len(ps) |-> IF ps[i].kind = "psk" THEN [kind |-> "psk", id |-> ps[i].id, val |-> pskStore[p][ps[i].id]]
                                                  ELSE [kind |-> "rpsk", epoch |-> ps[i].epoch]],
                   newExt |-> NewExt(ar.applied, g.ext), reinit |-> HasReinit(ar.applied), external |-> FALSE]
         IN /\ commits' = Append(commits, c)
            /\ grp' = [grp EXCEPT ![p].pend = IF dt THEN @ ELSE n, ![p].hsSend = IF opt.enc THEN @ + 1 ELSE @]
            /\ det' = IF dt THEN [det EXCEPT ![p] = @ \cup {n}] ELSE det
            /\ Record(act, p, args, "ok",
                      [commit |-> n, path |-> withPath,
                       applied |-> [i \in 1..Len(ar.applied) |-> [kind |-> ar.applied[i].kind, ref |-> ar.applied[i].ref]],
                       unused |-> SetToSortedSeq(unused),
                       welcome |-> [i \in 1..Len(ar.added) |-> ar.added[i][1]],
                       addedLeaves |-> [i \in 1..Len(ar.added) |-> ar.added[i][2]],
                       recips |-> LET xs == SetToSortedSeq(DOMAIN recips) IN [i \in 1..Len(xs) |-> [node |-> xs[i], keys |-> recips[xs[i]]]],
                       welcomeKeys |-> [i \in 1..Len(ar.added) |-> KpInitKey(ar.added[i][1])],
                       ext |-> NewExt(ar.applied, g.ext), reinit |-> HasReinit(ar.applied),
                       newTree |-> [i \in 1..Len(tree1) |-> ProjNode(tree1[i])]])
    /\ UNCHANGED <<zomb, kps, props, winner, opt, repo, store, apps>>

\* External commit (external_commit.rs ExternalCommitBuilder::build): party q, holding no usable state, joins
\* through the GroupInfo and tree published by member p; with resync it removes its own former leaf.  The
\* joiner holds the new epoch at once; the delivery service accepts the commit only if the epoch is still open.
ExternalCommit(q, p, resync) ==
    LET g == grp[p]
        n == Len(commits) + 1
        inTree == q \in Members(g.tree)
        oldLeaf == IF inTree THEN LeafOf(g.tree, q) ELSE 0
        items == <<[kind |-> "extinit", ref |-> 0, by |-> NoLeaf]>>
                 \o (IF resync THEN <<[kind |-> "rem", ref |-> 0, by |-> NoLeaf, target |-> oldLeaf]>> ELSE <<>>)
        ar == ApplyProposals("recv", q, g.tree, NoLeaf, items, g.ext)
        l == NextEmptyLeaf(ar.tree, 0)
        newLeaf == MkLeaf(CommitLeafKey(n), q, 0, "commit")
        treeA == AddLeafAt(ar.tree, l, newLeaf)
        pathKeys == EncapKeys(n, treeA, l)
        tree1 == ApplyPath(treeA, l, newLeaf, pathKeys)
        recips == [x \in DOMAIN pathKeys |->
                     LET rs == Recipients(tree1, l, x, {}) IN [i \in 1..Len(rs) |-> Node(tree1, rs[i]).k]]
        newPriv == MergeFn(pathKeys, (2 * l :> CommitLeafKey(n)))
        args == [from |-> p, resync |-> resync, oldLeaf |-> oldLeaf]
        c == [by |-> q, byLeaf |-> l, baseKs |-> g.ks, baseEpoch |-> g.epoch,
              items |-> ar.applied, path |-> TRUE, pathKeys |-> pathKeys, recips |-> recips,
              added |-> <<>>, removed |-> ar.removed, newTree |-> tree1, newPriv |-> newPriv,
              unused |-> {}, gen |-> 0, psks |-> <<>>, newExt |-> g.ext, reinit |-> FALSE, external |-> TRUE]
    IN
    /\ "extcommit" \in Features /\ HasGroup(p) /\ q # p /\ ~g.frozen
    /\ ReqOf(g.ext) \subseteq CapsOf(q)
    /\ Len(commits) < MaxCommits /\ g.epoch < MaxEpoch
    /\ (resync => inTree)
    \* q holds no group, or (resync) a stale one that it gives up
    /\ (HasGroup(q) => resync)
    \* delivery service: the epoch is still open and p's state is on the chosen history
    /\ winner[g.epoch] = 0 /\ (IF g.epoch = 0 THEN TRUE ELSE winner[g.epoch - 1] = g.ks)
    /\ IF inTree /\ ~resync
       THEN \* the joiner's identity is already in the tree: its new leaf is a duplicate
            /\ UNCHANGED <<grp, commits, winner, repo>>
            /\ Record("ExternalCommit", q, args, "err:rule:add-duplicate", [x |-> 0])
       ELSE /\ commits' = Append(commits, c)
            /\ winner' = [winner EXCEPT ![g.epoch] = n]
            /\ grp' = [grp EXCEPT ![q] = [st |-> "member", epoch |-> g.epoch + 1, ks |-> n, leaf |-> l,
                                          tree |-> tree1, priv |-> newPriv,
                                          cache |-> {}, pend |-> 0, pendUpd |-> {}, seenC |-> {}, sendGen |-> 0, recv |-> <<>>, hsSend |-> 0, hsRecv |-> <<>>,
                                          ext |-> g.ext, frozen |-> FALSE]]
            \* the builder constructs a placeholder group object for the epoch it joins from (no epoch secrets) and
            \* applies its own commit to it; the epoch that is "left" is not the joiner's and is not archived (F25)
            /\ repo' = [repo EXCEPT ![q] = [ins |-> <<>>, upd |-> <<>>]]
            /\ Record("ExternalCommit", q, args, "ok",
                      [commit |-> n, leaf |-> l,
                       recips |-> LET xs == SetToSortedSeq(DOMAIN recips) IN [i \in 1..Len(xs) |-> [node |-> xs[i], keys |-> recips[xs[i]]]],
                       newTree |-> [i \in 1..Len(tree1) |-> ProjNode(tree1[i])]])
    /\ UNCHANGED <<zomb, kps, props, opt, store, apps, det>>

ClearPending(p) ==
    /\ HasGroup(p) /\ grp[p].pend # 0
    /\ grp' = [grp EXCEPT ![p].pend = 0]
    /\ Record("ClearPending", p, [x |-> 0], "ok", [x |-> 0])
    /\ UNCHANGED <<zomb, kps, props, commits, winner, opt, repo, store, apps, det>>

\* the delivery service orders commits: one winner per epoch
DsChoose(n) ==
    /\ n \in 1..Len(commits)
    /\ winner[commits[n].baseEpoch] = 0
    /\ IF commits[n].baseEpoch = 0 THEN TRUE
       ELSE winner[commits[n].baseEpoch - 1] = commits[n].baseKs   \* extends the chosen history
    /\ winner' = [winner EXCEPT ![commits[n].baseEpoch] = n]
    /\ hist' = Append(hist, [a |-> "DsChoose", p |-> commits[n].by, args |-> [commit |-> n], res |-> "ok", out |-> [x |-> 0], post |-> [st |-> "skip"]])
    /\ UNCHANGED <<grp, zomb, kps, props, commits, opt, repo, store, apps, det>>

IsWinner(n) == winner[commits[n].baseEpoch] = n

\* state after applying commit n as its author
ApplyOwn(g, n) ==
    LET c == commits[n] IN
    [g EXCEPT !.epoch = g.epoch + 1, !.ks = n, !.tree = c.newTree, !.priv = c.newPriv,
              !.ext = c.newExt, !.frozen = c.reinit,
              !.cache = {}, !.pend = 0, !.pendUpd = {}, !.seenC = {}, !.sendGen = 0, !.recv = <<>>, !.hsSend = 0, !.hsRecv = <<>>]

ApplyPending(p) ==
    LET g == grp[p] IN
    /\ HasGroup(p)
    /\ IF g.pend = 0
       THEN /\ UNCHANGED grp
            /\ Record("ApplyPending", p, [x |-> 0], "err:no-pending", [x |-> 0])
       ELSE IF commits[g.pend].baseKs # g.ks
       THEN \* a pending commit that a detached commit has overtaken (ApplyDetached leaves it in place): it is inert,
            \* it cannot be applied and stays until it is cleared or somebody else's commit is processed
            /\ UNCHANGED grp
            /\ Record("ApplyPending", p, [x |-> 0], "err:epoch", [x |-> 0])
       ELSE IF StuckF14(p)
       THEN /\ UNCHANGED grp
            /\ Record("ApplyPending", p, [x |-> 0], "err:epoch:F14", [x |-> 0])
       ELSE /\ IsWinner(g.pend)
            /\ grp' = [grp EXCEPT ![p] = ApplyOwn(g, g.pend)]
            /\ Record("ApplyPending", p, [x |-> 0], "ok", [commit |-> g.pend])
    /\ RepoFollows(p)
    /\ UNCHANGED <<zomb, kps, props, commits, winner, opt, store, apps, det>>

\* a member processes a commit message (MessageProcessor::process_commit)
DeliverCommit(q, n) ==
    LET g == grp[q]
        c == commits[n]
        args == [commit |-> n]
        refs == {c.items[i].ref : i \in {i \in 1..Len(c.items) : IsByRef(c.items[i])}}
        ar == ApplyProposals("recv", q, g.tree, CommitterOf(c), c.items, g.ext)
        addedLeaves == {a[2] : a \in SeqSet(ar.added)}
    IN
    /\ n \in 1..Len(commits) /\ HasGroup(q)
    /\ (IsWinner(n) \/ g.epoch > c.baseEpoch)      \* delivery-service contract: winners, or stale traffic
    /\ IF c.baseEpoch # g.epoch \/ c.baseKs # g.ks
       THEN /\ UNCHANGED <<grp, zomb>>
            /\ Record("DeliverCommit", q, args, "err:epoch", [x |-> 0])
       ELSE IF opt.enc /\ ~c.external /\ c.by # q /\ RatchetVerdict(RatchetOf(g.hsRecv, c.byLeaf), c.gen) # "ok"
       THEN \* encrypted commit whose handshake key this receiver no longer has (already used, or too far ahead)
            /\ UNCHANGED <<grp, zomb>>
            /\ Record("DeliverCommit", q, args, RatchetVerdict(RatchetOf(g.hsRecv, c.byLeaf), c.gen), [x |-> 0])
       ELSE IF g.frozen
       THEN \* a re-init has been committed: the group refuses further commits
            /\ UNCHANGED <<grp, zomb>>
            /\ Record("DeliverCommit", q, args, "err:frozen", [x |-> 0])
       ELSE IF c.by = q /\ g.pend = n /\ StuckF14(q)
       THEN /\ UNCHANGED <<grp, zomb>>
            /\ Record("DeliverCommit", q, args, "err:epoch:F14", [x |-> 0])
       ELSE IF c.by = q /\ g.pend = n
       THEN \* own commit echoed back: matched by message hash, pending commit applied
            /\ grp' = [grp EXCEPT ![q] = ApplyOwn(g, n)]
            /\ UNCHANGED zomb
            /\ Record("DeliverCommit", q, args, "ok:own", [x |-> 0])
       ELSE IF c.by = q /\ ~c.external /\ opt.enc
       THEN \* own commit whose pending state is gone: an own PrivateMessage cannot be opened; a public one is
            \* processed like anybody else's until the update path is reached (the path secrets are gone), so a
            \* path-less public commit is even accepted
            /\ UNCHANGED <<grp, zomb>>
            /\ Record("DeliverCommit", q, args, "err:own-commit", [x |-> 0])
       ELSE IF ~(refs \subseteq g.cache)
       THEN /\ UNCHANGED <<grp, zomb>>
            /\ Record("DeliverCommit", q, args, "err:proposal-not-found", [x |-> 0])
       ELSE IF ~ar.ok
       THEN /\ UNCHANGED <<grp, zomb>>
            /\ Record("DeliverCommit", q, args, "err:" \o ar.err, [x |-> 0])
       ELSE IF g.leaf \in ar.removed
       THEN \* removed member: reports the removal and does not advance; an encrypted commit can be
            \* decrypted only once (its message key is consumed), a second delivery is a replay
            IF FALSE
            THEN /\ UNCHANGED <<grp, zomb>>
                 /\ Record("DeliverCommit", q, args, "err:replay", [x |-> 0])
            ELSE /\ grp' = [grp EXCEPT ![q].seenC = @ \cup {n},
                                       ![q].hsRecv = IF opt.enc /\ ~c.external THEN (c.byLeaf :> RatchetAfter(RatchetOf(g.hsRecv, c.byLeaf), c.gen)) @@ @ ELSE @]
                 /\ UNCHANGED zomb
                 /\ Record("DeliverCommit", q, args, "ok:removed", [x |-> 0])
       ELSE
         LET priv0 == ProvisionalPriv(g, ar.tree, ar.applied)
             \* an external commit: the joiner's leaf is added like any new leaf (leftmost blank, unmerged at its
             \* ancestors) before its update path is installed
             cl == IF c.external THEN NextEmptyLeaf(ar.tree, 0) ELSE c.byLeaf
             old == IF c.external THEN MkLeaf(CommitLeafKey(n), c.by, 0, "commit") ELSE Node(ar.tree, 2 * c.byLeaf)
             newLeaf == MkLeaf(CommitLeafKey(n), old.who, NewSig(old.cv, 20000, n), "commit")
             treeA == IF c.external THEN AddLeafAt(ar.tree, cl, newLeaf) ELSE ar.tree
             tree1 == IF c.path THEN ApplyPath(treeA, cl, newLeaf, c.pathKeys) ELSE ar.tree
             dec == IF c.path THEN Decap(tree1, cl, g.leaf, priv0, c.recips, addedLeaves) ELSE [ok |-> TRUE]
             learned == IF c.path THEN LearnedKeys(tree1, cl, g.leaf, c.pathKeys) ELSE <<>>
             \* keys at or above the LCA are replaced (None where the path has no node)
             keep == IF c.path
                     THEN LET n0 == LeafCount(tree1)
                              lvl == Level(CommonAncestor(cl, g.leaf, n0), n0)
                              dpr == DirectPathOf(tree1, g.leaf)
                          IN {x \in DOMAIN priv0 : ~\E i \in lvl..Len(dpr) : dpr[i] = x}
                     ELSE DOMAIN priv0
             \* C18: the epoch secret binds the PSK values; a receiver holding another value computes another
             \* confirmation tag
             pskSame == \A i \in 1..Len(c.psks) : c.psks[i].kind = "psk" => pskStore[q][c.psks[i].id] = c.psks[i].val
             rpskOk == \A i \in 1..Len(c.psks) : c.psks[i].kind = "rpsk" => RetainsEpoch(q, c.psks[i].epoch)
         \* (an external commit is not "own" for the group object the joiner gave up: its sender is no member)
         IN IF c.by = q /\ ~c.external /\ c.path
            THEN /\ UNCHANGED <<grp, zomb>>
                 /\ Record("DeliverCommit", q, args, "err:own-commit", [x |-> 0])
            ELSE IF ~dec.ok
            THEN /\ UNCHANGED <<grp, zomb>>
                 /\ Record("DeliverCommit", q, args, "err:decap-" \o dec.why, [x |-> 0])
            ELSE IF ~rpskOk
            THEN /\ UNCHANGED <<grp, zomb>>
                 /\ Record("DeliverCommit", q, args, "err:rule:psk-unknown", [x |-> 0])
            ELSE IF ~pskSame
            THEN /\ UNCHANGED <<grp, zomb>>
                 /\ Record("DeliverCommit", q, args, "err:conf-tag", [x |-> 0])
            ELSE IF StuckF14(q)
            THEN /\ UNCHANGED <<grp, zomb>>
                 /\ Record("DeliverCommit", q, args, "err:epoch:F14", [x |-> 0])
            ELSE /\ grp' = [grp EXCEPT ![q] = [g EXCEPT !.epoch = g.epoch + 1, !.ks = n, !.tree = tree1,
                                                        !.ext = c.newExt, !.frozen = c.reinit,
                                                        !.priv = MergeFn(RestrictFn(priv0, keep), learned),
                                                        !.cache = {}, !.pend = 0, !.pendUpd = {}, !.seenC = {}, !.sendGen = 0, !.recv = <<>>, !.hsSend = 0, !.hsRecv = <<>>]]
                 /\ UNCHANGED zomb
                 /\ Record("DeliverCommit", q, args, IF c.by = q /\ ~c.external THEN "ok:own" ELSE "ok", [x |-> 0])
    /\ RepoFollows(q)
    /\ UNCHANGED <<kps, props, commits, winner, opt, store, apps, det>>

\* a party joins with the Welcome of commit n (Group::from_welcome_message)
JoinWelcome(q, n) ==
    LET c == commits[n]
        mine == {i \in 1..Len(c.added) : kps[c.added[i][1]].owner = q /\ ~kps[c.added[i][1]].used}
    IN
    /\ n \in 1..Len(commits) /\ IsWinner(n)
    /\ ~HasGroup(q)
    /\ mine # {}
    \* generator restriction: a Welcome is not replayed to a party that has already joined through it.  (With a
    \* last-resort key package the library accepts it again and re-creates the joiner's initial state -- generation 0
    \* of its ratchets included, which its peers have already consumed.)
    /\ ~\E i \in 1..Len(hist) : hist[i].a = "JoinWelcome" /\ hist[i].p = q /\ hist[i].res = "ok" /\ hist[i].args.commit = n
    /\ LET i == CHOOSE i \in mine : TRUE
           kp == c.added[i][1]
           l == c.added[i][2]
           learned == IF c.path THEN LearnedKeys(c.newTree, c.byLeaf, l, c.pathKeys) ELSE <<>>
           \* C18: a joiner needs the same PSKs; it has no past epochs, so a resumption PSK cannot be resolved
           pskKnown == \A j \in 1..Len(c.psks) : c.psks[j].kind = "psk" /\ pskStore[q][c.psks[j].id] # "none"
           pskSame == \A j \in 1..Len(c.psks) : c.psks[j].kind = "psk" => pskStore[q][c.psks[j].id] = c.psks[j].val
       IN IF ~pskKnown \/ ~pskSame
          THEN /\ UNCHANGED <<grp, kps, repo>>
               /\ Record("JoinWelcome", q, [commit |-> n, kp |-> kp], IF ~pskKnown THEN "err:rule:psk-unknown" ELSE "err:decrypt", [x |-> 0])
          ELSE
          /\ grp' = [grp EXCEPT ![q] = [st |-> "member", epoch |-> c.baseEpoch + 1, ks |-> n, leaf |-> l,
                                        tree |-> c.newTree, priv |-> MergeFn((2 * l :> KpLeafKey(kp)), learned),
                                        cache |-> {}, pend |-> 0, pendUpd |-> {}, seenC |-> {}, sendGen |-> 0, recv |-> <<>>, hsSend |-> 0, hsRecv |-> <<>>,
                                        ext |-> c.newExt, frozen |-> c.reinit]]
          /\ kps' = [kps EXCEPT ![kp].used = ~IsLr(kp)]
          /\ repo' = [repo EXCEPT ![q] = [ins |-> <<>>, upd |-> <<>>]]
          /\ Record("JoinWelcome", q, [commit |-> n, kp |-> kp], "ok", [x |-> 0])
    /\ UNCHANGED <<zomb, props, commits, winner, opt, store, apps, det>>

\* a removed member's group object is retired (kept as a zombie that must reject all later traffic)
Retire(q) ==
    /\ HasGroup(q)
    /\ \E n \in 1..Len(commits) : IsWinner(n) /\ commits[n].baseKs = grp[q].ks /\ grp[q].leaf \in commits[n].removed
    /\ zomb' = [zomb EXCEPT ![q] = Append(@, grp[q])]
    /\ grp' = [grp EXCEPT ![q] = NoGroup]
    /\ Record("Retire", q, [x |-> 0], "ok", [x |-> 0])
    /\ UNCHANGED <<kps, props, commits, winner, opt, repo, store, apps, det>>

-----------------------------------------------------------------------------
(* Application messages and the per-sender message ratchets                 *)
(* (mls-rs/src/group/secret_tree.rs SecretKeyRatchet::get_message_key).     *)
(* A burst is k consecutive generations encrypted by one sender in one      *)
(* epoch; any generation of any burst can be delivered to anybody at any    *)
(* time (reordering, duplication, late delivery).                           *)
Encrypt(p, k) ==
    LET g == grp[p] IN
    /\ "apps" \in Features /\ HasGroup(p) /\ Len(apps) < MaxApps /\ k >= 1
    /\ IF g.cache # {}
       THEN \* pending proposals: the library refuses to send application data (CommitRequired)
            /\ UNCHANGED <<grp, apps>>
            /\ Record("Encrypt", p, [k |-> k], "err:commit-required", [x |-> 0])
       ELSE /\ apps' = Append(apps, [by |-> p, byLeaf |-> g.leaf, ks |-> g.ks, epoch |-> g.epoch,
                                     lo |-> g.sendGen, hi |-> g.sendGen + k - 1])
            /\ grp' = [grp EXCEPT ![p].sendGen = @ + k]
            /\ Record("Encrypt", p, [k |-> k], "ok", [app |-> Len(apps) + 1, lo |-> g.sendGen])
    /\ UNCHANGED <<zomb, kps, props, commits, winner, opt, repo, store, det>>

\* where a prior epoch is found (state_repo.rs get_epoch_mut): pending inserts (only there once the id is
\* >= the first queued id), then loaded updates, then storage
FindPrior(q, e) ==
    LET r == repo[q]
        inIns == {i \in 1..Len(r.ins) : r.ins[i].epoch = e}
        inUpd == {i \in 1..Len(r.upd) : r.upd[i].epoch = e}
        inSto == {i \in 1..Len(store[q].epochs) : store[q].epochs[i].epoch = e}
    IN IF r.ins # <<>> /\ e >= r.ins[1].epoch
       THEN (IF inIns # {} THEN [where |-> "ins", i |-> CHOOSE i \in inIns : TRUE] ELSE [where |-> "none"])
       ELSE IF inUpd # {} THEN [where |-> "upd", i |-> CHOOSE i \in inUpd : TRUE]
       ELSE IF inSto # {} THEN [where |-> "store", i |-> CHOOSE i \in inSto : TRUE]
       ELSE [where |-> "none"]

DeliverApp(q, a, gen) ==
    LET g == grp[q]
        m == apps[a]
        args == [app |-> a, gen |-> gen]
    IN
    /\ "apps" \in Features /\ a \in 1..Len(apps) /\ HasGroup(q) /\ m.by # q /\ gen \in m.lo..m.hi
    /\ IF m.ks = g.ks
       THEN LET r == RatchetOf(g.recv, m.byLeaf)  v == RatchetVerdict(r, gen) IN
            /\ grp' = IF v = "ok" THEN [grp EXCEPT ![q].recv = (m.byLeaf :> RatchetAfter(r, gen)) @@ @] ELSE grp
            /\ UNCHANGED repo
            /\ Record("DeliverApp", q, args, v, [x |-> 0])
       ELSE IF m.epoch >= g.epoch
       THEN \* a future epoch, or the same epoch number on another branch: no key material
            /\ UNCHANGED <<grp, repo>>
            /\ Record("DeliverApp", q, args, "err:epoch-not-found", [x |-> 0])
       ELSE LET f == FindPrior(q, m.epoch) IN
            IF f.where = "none"
            THEN /\ UNCHANGED <<grp, repo>>
                 /\ Record("DeliverApp", q, args, "err:epoch-not-found", [x |-> 0])
            ELSE LET rec == CASE f.where = "ins" -> repo[q].ins[f.i]
                              [] f.where = "upd" -> repo[q].upd[f.i]
                              [] f.where = "store" -> store[q].epochs[f.i]
                     r == RatchetOf(rec.recv, m.byLeaf)
                     v0 == RatchetVerdict(r, gen)
                     \* C19: the sender's leaf must still carry the identity it had in that epoch
                     senderOk == /\ m.byLeaf \in OccupiedLeaves(g.tree)
                                 /\ m.byLeaf \in DOMAIN rec.who
                                 /\ Node(g.tree, 2 * m.byLeaf).who = rec.who[m.byLeaf]
                     \* Named deviation F24 (known finding): the sender is still the member at that leaf but has changed
                     \* its signature key since: mls-rs compares signature keys to detect a reused leaf and rejects
                     rekeyed == senderOk /\ Node(g.tree, 2 * m.byLeaf).cv # rec.sig[m.byLeaf]
                     v == IF rec.ks # m.ks THEN "err:decrypt"
                          ELSE IF v0 # "ok" THEN v0
                          ELSE IF ~senderOk THEN "err:sender-gone"
                          ELSE IF rekeyed /\ "F24" \in Deviations THEN "err:sender-gone:F24" ELSE "ok"
                     rec2 == [rec EXCEPT !.recv = (m.byLeaf :> RatchetAfter(r, gen)) @@ @]
                 IN /\ UNCHANGED grp
                    /\ repo' = IF v # "ok"
                               THEN (IF f.where = "store"   \* the record was loaded (and stays cached) but is unmodified
                                     THEN [repo EXCEPT ![q].upd = Append(@, rec)] ELSE repo)
                               ELSE CASE f.where = "ins" -> [repo EXCEPT ![q].ins[f.i] = rec2]
                                      [] f.where = "upd" -> [repo EXCEPT ![q].upd[f.i] = rec2]
                                      [] f.where = "store" -> [repo EXCEPT ![q].upd = Append(@, rec2)]
                    /\ Record("DeliverApp", q, args, v, [from |-> f.where])
    /\ UNCHANGED <<zomb, kps, props, commits, winner, opt, store, apps, det>>

-----------------------------------------------------------------------------
(* Storage (state_repo.rs write_to_storage, in_memory/group_state_storage.rs, *)
(* mls-rs-provider-sqlite/src/group_state.rs).                                *)
LastN(sq, n) == IF Len(sq) <= n THEN sq ELSE SubSeq(sq, Len(sq) - n + 1, Len(sq))

ApplyUpd(epochs, upd) ==
    [i \in 1..Len(epochs) |->
        LET hits == {j \in 1..Len(upd) : upd[j].epoch = epochs[i].epoch} IN
        IF hits = {} THEN epochs[i] ELSE upd[CHOOSE j \in hits : \A k \in hits : k <= j]]

SqlTrim(all, ins) ==
    IF ins = <<>> THEN all
    ELSE LET mx == ins[Len(ins)].epoch IN SelectSeq(all, LAMBDA r : mx < Retention \/ r.epoch > mx - Retention)

Write(p) ==
    /\ "storage" \in Features /\ HasGroup(p)
    /\ store' = [store EXCEPT ![p] = [snap |-> grp[p],
                                      \* in-memory provider: keep the last Retention records by position
                                      epochs |-> LastN(ApplyUpd(store[p].epochs, repo[p].upd) \o repo[p].ins, Retention),
                                      \* SQLite provider: delete ids <= max inserted id - Retention, only when something was inserted
                                      sql |-> SqlTrim(ApplyUpd(store[p].sql, repo[p].upd) \o repo[p].ins, repo[p].ins)]]
    /\ repo' = [repo EXCEPT ![p] = [ins |-> <<>>, upd |-> <<>>]]
    /\ UNCHANGED <<grp, zomb, kps, props, commits, winner, opt, apps, det>>
    /\ Record("Write", p, [x |-> 0], "ok", [x |-> 0])

\* the process dies and the member is loaded again from storage: everything not written is forgotten
Load(p) ==
    /\ "storage" \in Features /\ store[p].snap.st = "member"
    /\ (grp[p].st = "member" => grp[p].ks = grp[p].ks)
    /\ grp' = [grp EXCEPT ![p] = store[p].snap]
    /\ repo' = [repo EXCEPT ![p] = [ins |-> <<>>, upd |-> <<>>]]
    /\ det' = [det EXCEPT ![p] = {}]
    /\ UNCHANGED <<zomb, kps, props, commits, winner, opt, store, apps>>
    /\ Record("Load", p, [x |-> 0], "ok", [x |-> 0])

-----------------------------------------------------------------------------
(* Detached commits (Group::commit_detached / apply_detached_commit).       *)
(* The secrets live outside the group; applying them is only legitimate on  *)
(* the epoch they were built from.                                          *)
ApplyDetached(p, n) ==
    LET g == grp[p] IN
    /\ "detached" \in Features /\ HasGroup(p) /\ n \in det[p]
    /\ IF commits[n].baseKs = g.ks /\ StuckF14(p)
       THEN /\ UNCHANGED grp
            /\ Record("ApplyDetached", p, [commit |-> n], "err:epoch:F14", [x |-> 0])
       ELSE IF commits[n].baseKs = g.ks
       THEN /\ IsWinner(n)
            \* (apply_detached_commit does not touch the pending commit: one built on the epoch that is left stays
            \* behind, stale)
            /\ grp' = [grp EXCEPT ![p] = [ApplyOwn(g, n) EXCEPT !.pend = g.pend]]
            /\ Record("ApplyDetached", p, [commit |-> n], "ok", [x |-> 0])
       ELSE /\ UNCHANGED grp
            /\ Record("ApplyDetached", p, [commit |-> n], "err:epoch", [x |-> 0])
    /\ RepoFollows(p)
    /\ det' = [det EXCEPT ![p] = @ \ {n}]
    /\ UNCHANGED <<zomb, kps, props, commits, winner, opt, store, apps>>


-----------------------------------------------------------------------------
(* External observer (mls-rs/src/external_client/group.rs): follows the     *)
(* public handshake traffic without secrets.  It shares process_commit with *)
(* the members minus decapsulation, PSK resolution and confirmation-tag     *)
(* verification; ciphertexts are passed through if their epoch lies in the  *)
(* window [max(0, epoch - jitter), ...] (C16: saturating, never a panic).   *)
ObsStep(a, args, res) ==
    hist' = Append(hist, [a |-> a, p |-> "observer", args |-> args, res |-> res, out |-> [x |-> 0],
                          post |-> IF obs'.st = "off" THEN [st |-> "none"]
                                   ELSE [st |-> "observer", epoch |-> obs'.epoch, ks |-> obs'.ks, ext |-> obs'.ext,
                                         tree |-> [i \in 1..Len(obs'.tree) |-> ProjNode(obs'.tree[i])],
                                         cache |-> SetToSortedSeq(obs'.cache)]])

ObsRest == UNCHANGED <<grp, zomb, kps, props, commits, winner, opt, repo, store, apps, det>>

\* observe_group(GroupInfo of member p, its tree)
ObsJoin(p) ==
    /\ "observer" \in Features /\ HasGroup(p)
    /\ obs' = [st |-> "on", epoch |-> grp[p].epoch, ks |-> grp[p].ks, tree |-> grp[p].tree, ext |-> grp[p].ext,
               cache |-> {}, frozen |-> grp[p].frozen]
    /\ ObsStep("ObsJoin", [from |-> p], "ok") /\ ObsRest

NoJitter == 99999      \* max_epoch_jitter not configured
InWindow(e) == opt.jit = NoJitter \/ e >= (IF obs.epoch >= opt.jit THEN obs.epoch - opt.jit ELSE 0)

\* the observer as external sender (its signing identity is listed in the group's ExternalSenders extension):
\* ExternalGroup::propose_add / propose_remove; the proposal is a PublicMessage and the observer caches it
ObsPropose(kind, arg) ==
    LET j == Len(props) + 1
        \* kind-specific fields as in the members' Propose* actions
        extra == CASE kind = "gce" -> [ver |-> j]
                   [] kind = "custom" -> [ver |-> j]
                   [] kind = "psk" -> [id |-> arg]
                   [] OTHER -> [x |-> 0]
    IN
    /\ "extsender" \in Features /\ obs.st = "on" /\ kind \in {"add", "rem", "gce", "custom", "psk", "reinit"}
    /\ (kind = "add" => /\ arg \in 1..Len(kps) /\ ~kps[arg].used /\ kps[arg].owner \notin Members(obs.tree)
                        /\ ~\E k \in 1..Len(props) : props[k].kind = "add" /\ props[k].ks = obs.ks)
    /\ (kind = "rem" => /\ arg \in OccupiedLeaves(obs.tree)
                        /\ ~\E k \in 1..Len(props) : props[k].kind = "rem" /\ props[k].target = arg /\ props[k].ks = obs.ks)
    \* group context extensions (one by-reference GCE per epoch, as for members), application-defined proposals
    \* (the rules do not restrict their senders) and external PSKs (the observer needs no PSK value to propose one)
    /\ (kind = "gce" => /\ "gce" \in Features /\ arg = 0
                        /\ ~\E k \in 1..Len(props) : props[k].kind = "gce" /\ props[k].ks = obs.ks)
    /\ (kind = "custom" => "custom" \in Features /\ arg = 0)
    /\ (kind = "psk" => "psk" \in Features /\ arg \in PskIds)
    /\ (kind = "reinit" => /\ "reinit" \in Features /\ arg = 0
                           /\ ~\E k \in 1..Len(props) : props[k].kind = "reinit" /\ props[k].ks = obs.ks)
    /\ NewProp([kind |-> kind, kp |-> IF kind = "add" THEN arg ELSE 0, target |-> IF kind = "rem" THEN arg ELSE 0,
                by |-> "observer", sender |-> "external", byLeaf |-> NoLeaf, ks |-> obs.ks, epoch |-> obs.epoch, gen |-> 0] @@ extra)
    /\ obs' = [obs EXCEPT !.cache = @ \cup {j}]
    /\ ObsStep("ObsPropose", [kind |-> kind, arg |-> arg, prop |-> j], "ok")
    /\ UNCHANGED <<grp, zomb, kps, commits, winner, opt, repo, store, apps, det>>

ObsDeliverProposal(j) ==
    LET pr == props[j] IN
    /\ "observer" \in Features /\ obs.st = "on" /\ j \in 1..Len(props) /\ j \notin obs.cache
    /\ IF pr.epoch # obs.epoch \/ (~opt.enc /\ pr.ks # obs.ks)
       THEN /\ UNCHANGED obs /\ ObsStep("ObsDeliverProposal", [prop |-> j], "err:epoch")
       ELSE IF opt.enc /\ SenderOf(pr) = "member"
       THEN /\ UNCHANGED obs /\ ObsStep("ObsDeliverProposal", [prop |-> j], "ok:ciphertext")
       ELSE /\ obs' = [obs EXCEPT !.cache = @ \cup {j}]
            /\ ObsStep("ObsDeliverProposal", [prop |-> j], "ok")
    /\ ObsRest

ObsDeliverCommit(n) ==
    LET c == commits[n]
        refs == {c.items[i].ref : i \in {i \in 1..Len(c.items) : IsByRef(c.items[i])}}
        ar == ApplyProposals("obs", Creator, obs.tree, CommitterOf(c), c.items, obs.ext)
        cl == IF c.external THEN NextEmptyLeaf(ar.tree, 0) ELSE c.byLeaf
        old == IF c.external THEN MkLeaf(CommitLeafKey(n), c.by, 0, "commit") ELSE Node(ar.tree, 2 * c.byLeaf)
        newLeaf == MkLeaf(CommitLeafKey(n), old.who, NewSig(old.cv, 20000, n), "commit")
        treeA == IF c.external THEN AddLeafAt(ar.tree, cl, newLeaf) ELSE ar.tree
        tree1 == IF c.path THEN ApplyPath(treeA, cl, newLeaf, c.pathKeys) ELSE ar.tree
        args == [commit |-> n]
    IN
    /\ "observer" \in Features /\ obs.st = "on" /\ n \in 1..Len(commits)
    /\ (IsWinner(n) \/ obs.epoch > c.baseEpoch)
    \* an external commit is always a PublicMessage
    /\ IF c.baseEpoch # obs.epoch \/ ((~opt.enc \/ c.external) /\ c.baseKs # obs.ks)
       THEN /\ UNCHANGED obs /\ ObsStep("ObsDeliverCommit", args, "err:epoch")
       ELSE IF opt.enc /\ ~c.external
       THEN /\ UNCHANGED obs /\ ObsStep("ObsDeliverCommit", args, "ok:ciphertext")
       ELSE IF obs.frozen
       THEN /\ UNCHANGED obs /\ ObsStep("ObsDeliverCommit", args, "err:frozen")
       ELSE IF ~(refs \subseteq obs.cache)
       THEN /\ UNCHANGED obs /\ ObsStep("ObsDeliverCommit", args, "err:proposal-not-found")
       ELSE IF ~ar.ok
       THEN /\ UNCHANGED obs /\ ObsStep("ObsDeliverCommit", args, "err:" \o ar.err)
       ELSE /\ obs' = [obs EXCEPT !.epoch = @ + 1, !.ks = n, !.tree = tree1, !.ext = c.newExt, !.cache = {}, !.frozen = c.reinit]
            /\ ObsStep("ObsDeliverCommit", args, "ok")
    /\ ObsRest

\* an application message (always a PrivateMessage) is let through as ciphertext iff its epoch is inside the window
ObsDeliverApp(a, gen) ==
    /\ "observer" \in Features /\ "apps" \in Features /\ obs.st = "on" /\ a \in 1..Len(apps) /\ gen \in apps[a].lo..apps[a].hi
    /\ UNCHANGED obs
    /\ ObsStep("ObsDeliverApp", [app |-> a, gen |-> gen], IF InWindow(apps[a].epoch) THEN "ok:ciphertext" ELSE "err:epoch")
    /\ ObsRest

\* snapshot, serialise, restore: nothing changes
ObsSnapshotRestore ==
    /\ "observer" \in Features /\ obs.st = "on"
    /\ UNCHANGED obs /\ ObsStep("ObsSnapshotRestore", [x |-> 0], "ok") /\ ObsRest


MemberNext ==
    \/ \E p \in Parties : \E lr \in LrChoices : GenKeyPackage(p, lr)
    \/ \E p \in Parties : \E i \in 1..Len(kps) : ProposeAdd(p, i)
    \/ \E p \in Parties : \E l \in 0..7 : ProposeRemove(p, l)
    \/ \E p \in Parties : ProposeUpdate(p)
    \/ \E p \in Parties : \E why \in {"expired", "cred"} : GenBadKeyPackage(p, why)
    \/ \E p \in Parties : \E id \in PskIds : ProposePsk(p, id)
    \/ \E p \in Parties : \E e \in 0..MaxEpoch : ProposeResumptionPsk(p, e)
    \/ \E p \in Parties : \E code \in ReqCodes : ProposeGce(p, code)
    \/ \E p \in Parties : ProposeReinit(p)
    \/ \E p \in Parties : ProposeCustom(p)
    \/ \E q \in Parties : \E j \in 1..Len(props) : DeliverProposal(q, j)
    \/ \E q, r \in Parties : NewMemberPropose(q, r)
    \/ \E p \in Parties : HasGroup(p) /\ \E bv \in ByValueSeqs(grp[p]) : \E dt \in BOOLEAN : Commit(p, bv, dt)
    \/ \E p \in Parties : ClearPending(p)
    \/ \E q, p \in Parties : \E rs \in BOOLEAN : ExternalCommit(q, p, rs)
    \/ \E n \in 1..Len(commits) : DsChoose(n)
    \/ \E p \in Parties : ApplyPending(p)
    \/ \E q \in Parties : \E n \in 1..Len(commits) : DeliverCommit(q, n)
    \/ \E q \in Parties : \E n \in 1..Len(commits) : JoinWelcome(q, n)
    \/ \E q \in Parties : Retire(q)
    \/ \E p \in Parties : \E k \in BurstSizes : Encrypt(p, k)
    \/ \E q \in Parties : \E a \in 1..Len(apps) : \E gen \in apps[a].lo..apps[a].hi : DeliverApp(q, a, gen)
    \/ \E p \in Parties : Write(p)
    \/ \E p \in Parties : Load(p)
    \/ \E p \in Parties : \E n \in det[p] : ApplyDetached(p, n)

-----------------------------------------------------------------------------
(* Successor groups (mls-rs/src/group/resumption.rs).  After a re-init     *)
(* commit the old group is frozen (above); any frozen member may create    *)
(* the successor from fresh key packages of the others, and it exists      *)
(* exactly when its members are the old members (same identities, whatever *)
(* the shape of the old tree).  Any member may branch a sub-group from     *)
(* key packages of a subset of the members.  Both inject the resumption    *)
(* secret of the old epoch: joining needs the old group in that very epoch *)
(* (same epoch secret), through the matching API.                           *)
IsSuccKp(i) == "succ" \in DOMAIN kps[i]
SuccKps == {i \in 1..Len(kps) : IsSuccKp(i)}

\* a key package for a successor group; members may issue them (kept out of the old group's own adds)
GenSuccKeyPackage(p) ==
    /\ "succ" \in Features /\ Len(kps) < MaxKps
    \* one package per party that no successor refers to yet
    /\ ~\E i \in SuccKps : kps[i].owner = p /\ ~\E s \in 1..Len(succ) : i \in Range(succ[s].kp)
    /\ kps' = Append(kps, [owner |-> p, cv |-> 0, used |-> TRUE, bad |-> "", succ |-> TRUE])
    /\ UNCHANGED <<grp, zomb, props, commits, winner, opt, repo, store, apps, det, succ>>
    /\ Record("GenKeyPackage", p, [kp |-> Len(kps) + 1, bad |-> "", lr |-> FALSE], "ok", [x |-> 0])

SuccRest == UNCHANGED <<grp, zomb, kps, props, commits, winner, opt, repo, store, apps, det>>

SuccGid(kind, n) == IF kind = "reinit" THEN "next" ELSE "branch"

\* ReinitClient::commit / Group::branch by p with the key packages S (a set of key package ids)
\* tw: "none", or the creator is an insider that deviates from what was announced ("gid": another group id than the
\* re-init proposal named; "ext": other group context extensions than announced / than the old group's).  The
\* creator holds the real resumption secret, so only the joiners' comparison with the announcement stops it.
SuccTweaks == {"none", "gid", "ext"}
TweakedExt == 777
SuccCreate(kind, p, S, tw) ==
    LET g == grp[p]
        owners == {kps[i].owner : i \in S}
        old == Members(g.tree)
        dup == \E i, j \in S : i # j /\ kps[i].owner = kps[j].owner
        args == [kind |-> kind, kps |-> SetToSortedSeq(S), tweak |-> tw]
        res == IF kind = "reinit" /\ ~g.frozen THEN "err:no-reinit"
               ELSE IF dup \/ p \in owners THEN "err:rule:duplicate"
               ELSE IF kind = "reinit" /\ owners \cup {p} # old THEN "err:not-subgroup"
               ELSE IF kind = "branch" /\ ~(owners \subseteq old) THEN "err:not-subgroup"
               ELSE "ok"
        rec == [kind |-> kind, by |-> p, ks |-> g.ks, members |-> owners \cup {p},
                kp |-> [q \in owners |-> CHOOSE i \in S : kps[i].owner = q],
                ext |-> IF tw = "ext" THEN TweakedExt ELSE IF kind = "reinit" THEN 0 ELSE g.ext, joined |-> {}, forged |-> FALSE,
                tweak |-> tw]
    IN
    /\ "succ" \in Features /\ HasGroup(p) /\ kind \in {"reinit", "branch"} /\ S \subseteq SuccKps /\ Len(succ) < MaxSucc
    /\ tw \in SuccTweaks /\ (tw = "gid" => kind = "reinit") /\ (tw # "none" => "succtweak" \in Features)
    /\ succ' = IF res = "ok" THEN Append(succ, rec) ELSE succ
    /\ SuccRest
    /\ Record("SuccCreate", p, args, res,
              IF res = "ok" THEN [succ |-> Len(succ) + 1, members |-> rec.members, ext |-> rec.ext] ELSE [x |-> 0])

\* A forged successor: party p (a member or not) builds an ordinary group with the public parameters a successor
\* of member r's group would have (announced group id, extensions, epoch 1 after adding the key packages S) but
\* without the old group's resumption secret.  Nobody can join it as a successor.
SuccForge(kind, p, r, S) ==
    LET owners == {kps[i].owner : i \in S}
        rec == [kind |-> kind, by |-> p, ks |-> NoSecrets, members |-> owners \cup {p},
                kp |-> [q \in owners |-> CHOOSE i \in S : kps[i].owner = q],
                ext |-> IF kind = "reinit" THEN 0 ELSE grp[r].ext, joined |-> {}, forged |-> TRUE, tweak |-> "none"]
    IN
    /\ "succ" \in Features /\ HasGroup(r) /\ kind \in {"reinit", "branch"} /\ S \subseteq SuccKps /\ S # {} /\ Len(succ) < MaxSucc
    /\ p \notin owners /\ \A i, j \in S : i # j => kps[i].owner # kps[j].owner
    /\ succ' = Append(succ, rec)
    /\ SuccRest
    /\ Record("SuccForge", p, [kind |-> kind, like |-> r, kps |-> SetToSortedSeq(S), ext |-> rec.ext], "ok",
              [succ |-> Len(succ) + 1, members |-> rec.members, ext |-> rec.ext])

\* q tries to join successor s through ReinitClient::join ("reinit"), Group::join_subgroup ("branch") or,
\* without any old state, Client::join_group ("plain")
SuccJoin(q, s, how) ==
    LET sg == succ[s]
        res == IF how = "plain" THEN (IF sg.forged THEN "ok" ELSE "err:succ")   \* a forged successor is an ordinary group
               ELSE IF how = "reinit" /\ ~grp[q].frozen THEN "err:no-reinit"
               ELSE IF ~sg.forged /\ how = sg.kind /\ grp[q].ks = sg.ks /\ sg.tweak = "none" THEN "ok"
               ELSE "err:succ"
    IN
    /\ "succ" \in Features /\ s \in 1..Len(succ) /\ q \in DOMAIN sg.kp /\ how \in {"reinit", "branch", "plain"}
    /\ (how = "plain" \/ HasGroup(q))
    /\ succ' = IF res = "ok" THEN [succ EXCEPT ![s].joined = @ \cup {q}] ELSE succ
    /\ SuccRest
    /\ Record("SuccJoin", q, [succ |-> s, how |-> how, kp |-> sg.kp[q]], res,
              IF res = "ok" THEN [members |-> sg.members, ext |-> sg.ext] ELSE [x |-> 0])

SuccNext ==
    \/ \E p \in Parties : GenSuccKeyPackage(p)
    \/ \E p \in Parties : \E kind \in {"reinit", "branch"} : \E S \in SUBSET SuccKps : \E tw \in SuccTweaks : SuccCreate(kind, p, S, tw)
    \/ \E q \in Parties : \E s \in 1..Len(succ) : \E how \in {"reinit", "branch", "plain"} : SuccJoin(q, s, how)
    \/ \E p, r \in Parties : \E kind \in {"reinit", "branch"} : \E S \in SUBSET SuccKps : SuccForge(kind, p, r, S)

ObsNext ==
    \/ \E p \in Parties : ObsJoin(p)
    \/ \E j \in 1..Len(props) : ObsDeliverProposal(j)
    \/ \E arg \in 0..MaxKps : \E kind \in {"add", "rem", "gce", "custom", "reinit"} : ObsPropose(kind, arg)
    \/ \E id \in PskIds : ObsPropose("psk", id)
    \/ \E n \in 1..Len(commits) : ObsDeliverCommit(n)
    \/ \E a \in 1..Len(apps) : \E gen \in apps[a].lo..apps[a].hi : ObsDeliverApp(a, gen)
    \/ ObsSnapshotRestore

Next == (MemberNext /\ UNCHANGED <<obs, succ>>) \/ (ObsNext /\ UNCHANGED succ) \/ (SuccNext /\ UNCHANGED obs)

\* the acting party's repository / storage after the step (needs the primed variables, hence a
\* conjunct evaluated after Next)
AuxOf(p) ==
    [ins |-> [i \in 1..Len(repo'[p].ins) |-> repo'[p].ins[i].epoch],
     upd |-> SetToSortedSeq({repo'[p].upd[i].epoch : i \in 1..Len(repo'[p].upd)}),
     stored |-> [i \in 1..Len(store'[p].epochs) |-> store'[p].epochs[i].epoch],
     snap |-> IF store'[p].snap.st = "member" THEN store'[p].snap.epoch ELSE 0,
     hasSnap |-> store'[p].snap.st = "member"]

Logged(A) == A /\ UNCHANGED pskStore
             /\ haux' = Append(haux, IF hist'[Len(hist')].p \in Parties THEN AuxOf(hist'[Len(hist')].p) ELSE [x |-> 0])

Spec == Init /\ [][Logged(Next)]_vars

-----------------------------------------------------------------------------
(* Invariants *)
MemberStates == {grp[p] : p \in {p \in Parties : HasGroup(p)}}

\* C01: everybody in the same epoch secret holds the same epoch number and tree
Agreement ==
    \A p, q \in Parties : (HasGroup(p) /\ HasGroup(q) /\ grp[p].ks = grp[q].ks) =>
        /\ grp[p].epoch = grp[q].epoch
        /\ grp[p].tree = grp[q].tree

RECURSIVE ChainLenOf(_)
ChainLenOf(ks) == IF ks = 0 THEN 0 ELSE 1 + ChainLenOf(commits[ks].baseKs)

\* C16: the observer holds the tree, extensions and epoch of every member that is in the same epoch of the same
\* history, its epoch is the length of the commit chain behind it, and its tree is structurally valid
ObserverTracks ==
    obs.st = "on" =>
        /\ \A p \in Parties : (HasGroup(p) /\ grp[p].ks = obs.ks) =>
                /\ grp[p].epoch = obs.epoch /\ grp[p].tree = obs.tree /\ grp[p].ext = obs.ext
        /\ obs.epoch = ChainLenOf(obs.ks)
        /\ StructurallyValid(obs.tree)

\* C17: a re-init successor has exactly the old members, a branch a subset; whoever joined one held the old
\* group in the epoch it was created from (same epoch secret: it knows the resumption secret)
SuccessorsLegal ==
    \A s \in 1..Len(succ) :
        LET sg == succ[s]  n == sg.ks IN
        sg.forged \/
        \* the tree of the epoch the successor was created from: that of any member still in it, else unknown
        /\ \A p \in Parties : (HasGroup(p) /\ grp[p].ks = sg.ks) =>
                /\ (sg.kind = "reinit" => (sg.members = Members(grp[p].tree) /\ grp[p].frozen))
                /\ (sg.kind = "branch" => sg.members \subseteq Members(grp[p].tree))
        /\ sg.joined \subseteq (sg.members \ {sg.by})
        \* nobody joins a successor whose parameters are not the announced ones
        /\ (sg.tweak # "none" => sg.joined = {})

\* C17: once a re-init is committed the old group never changes epoch again
FrozenNeverAdvances ==
    [][\A p \in Parties : (HasGroup(p) /\ grp[p].frozen) =>
            (grp'[p].st = "member" => (grp'[p].epoch <= grp[p].epoch))]_vars

\* C01: a member's epoch is the length of the chosen commit chain behind its secret
RECURSIVE ChainLen(_)
ChainLen(ks) == IF ks = 0 THEN 0 ELSE 1 + ChainLen(commits[ks].baseKs)
EpochIsChainLength == \A p \in Parties : HasGroup(p) => grp[p].epoch = ChainLen(grp[p].ks)

\* C08: every member's tree is structurally valid, own leaf is where it believes it is
TreesValid ==
    \A p \in Parties : HasGroup(p) =>
        /\ StructurallyValid(grp[p].tree)
        /\ grp[p].leaf \in OccupiedLeaves(grp[p].tree)
        /\ Node(grp[p].tree, 2 * grp[p].leaf).who = p

\* C09: private keys match the public tree, none for a blank node, only on the own direct path
PrivMatchesPub ==
    \A p \in Parties : HasGroup(p) =>
        LET g == grp[p] IN
        /\ 2 * g.leaf \in DOMAIN g.priv
        /\ \A x \in DOMAIN g.priv :
              /\ ~IsBlank(Node(g.tree, x))
              /\ Node(g.tree, x).k = g.priv[x]
              /\ (x = 2 * g.leaf \/ x \in SeqSet(DirectPathOf(g.tree, g.leaf)))

\* C02: path secrets are sealed only to keys in the new tree's copath resolutions, never to a leaf
\* added by the same commit or to a key of a removed leaf
RecipientsEntitled ==
    \A n \in 1..Len(commits) :
        LET c == commits[n]
            treeKeys == {Node(c.newTree, x).k : x \in NonBlankNodes(c.newTree)}
            addedKeys == {KpLeafKey(a[1]) : a \in SeqSet(c.added)}
        IN \A x \in DOMAIN c.recips : \A i \in 1..Len(c.recips[x]) :
              /\ c.recips[x][i] \in treeKeys
              /\ c.recips[x][i] \notin addedKeys

\* C02/C01: every member other than the committer and the members it removes can decrypt the path:
\* checked as "no winner commit is ever undecryptable by a member in its base epoch"
DecapErrs == {"err:decap-lca-filtered", "err:decap-not-in-resolution", "err:decap-no-key", "err:decap-wrong-key"}
NoDecapFailure ==
    \A i \in 1..Len(hist) : ~(hist[i].a = "DeliverCommit" /\ hist[i].res \in DecapErrs)

\* C11: one pending commit, the member's own, built on its current epoch -- or on an epoch it has left by applying
\* a detached commit, in which case it is stale and is never applied (PendingAppliedOnItsBase)
PendingOnCurrentEpoch ==
    \A p \in Parties : (HasGroup(p) /\ grp[p].pend # 0) =>
        /\ commits[grp[p].pend].by = p
        /\ \/ commits[grp[p].pend].baseKs = grp[p].ks
           \/ "detached" \in Features /\ commits[grp[p].pend].baseEpoch < grp[p].epoch
\* every own commit that was applied (pending, detached or echoed back) was built on the state it was applied to
PendingAppliedOnItsBase ==
    \A i \in 1..Len(hist) :
        (hist[i].a \in {"ApplyPending", "ApplyDetached"} /\ hist[i].res = "ok" /\ i > 1) =>
            LET n == hist[i].post.ks IN commits[n].baseEpoch + 1 = hist[i].post.epoch

\* C06: the two shipped storage providers retain the same history (their trimming code differs)
ProvidersAgree == \A p \in Parties : store[p].epochs = store[p].sql

\* C19: what storage retains after a write is exactly the Retention most recent prior epochs, contiguous
RetentionExact ==
    \A p \in Parties :
        LET e == store[p].epochs IN
        /\ Len(e) <= Retention
        /\ \A i \in 1..(Len(e) - 1) : e[i + 1].epoch = e[i].epoch + 1
        /\ (store[p].snap.st = "member" /\ e # <<>>) => e[Len(e)].epoch < store[p].snap.epoch

\* C05: within an epoch a sender never encrypts two messages under the same generation (unless it was
\* rolled back to an older snapshot, where the random reuse guard is the only protection)
NoGenerationReuse ==
    \A a, b \in 1..Len(apps) :
        (a < b /\ apps[a].ks = apps[b].ks /\ apps[a].by = apps[b].by /\ apps[a].byLeaf = apps[b].byLeaf) =>
            \/ apps[a].hi < apps[b].lo
            \/ \E i \in 1..Len(hist) : hist[i].a = "Load" /\ hist[i].p = apps[a].by

\* C05: a receiver accepts a given ciphertext at most once (between two reloads)
RECURSIVE CountAccepts(_, _, _, _)
CountAccepts(i, q, a, gen) ==
    IF i = 0 THEN 0
    ELSE IF hist[i].a = "Load" /\ hist[i].p = q THEN 0
    ELSE (IF hist[i].a = "DeliverApp" /\ hist[i].p = q /\ hist[i].res = "ok" /\ hist[i].args.app = a /\ hist[i].args.gen = gen THEN 1 ELSE 0)
         + CountAccepts(i - 1, q, a, gen)
AtMostOnce ==
    (hist # <<>> /\ hist[Len(hist)].a = "DeliverApp" /\ hist[Len(hist)].res = "ok") =>
        CountAccepts(Len(hist), hist[Len(hist)].p, hist[Len(hist)].args.app, hist[Len(hist)].args.gen) = 1

\* C01/C11 (action property): a member changes epoch only by one step, onto a commit built on its
\* current epoch (or by being reloaded from storage)
StepsByOne ==
    [][\A p \in Parties :
        (grp[p].st = "member" /\ grp'[p].st = "member" /\ grp'[p].ks # grp[p].ks) =>
            \/ (grp'[p].epoch = grp[p].epoch + 1 /\ commits'[grp'[p].ks].baseKs = grp[p].ks)
            \/ grp'[p] = store[p].snap
            \* resynchronisation: the member gives up its state and re-enters by its own external commit
            \/ (commits'[grp'[p].ks].external /\ commits'[grp'[p].ks].by = p)]_vars

\* C10: whatever the sender's filter keeps is exactly what the receiver's stricter mode accepts: every
\* member of the commit's base epoch that has the referenced proposals (and the PSKs) validates the
\* committed list to the same applied list and the same tree
SendImpliesRecv ==
    \A n \in 1..Len(commits) : \A q \in Parties :
        LET c == commits[n]
            refs == {c.items[i].ref : i \in {i \in 1..Len(c.items) : IsByRef(c.items[i])}}
        IN (HasGroup(q) /\ grp[q].ks = c.baseKs /\ q # c.by /\ refs \subseteq grp[q].cache) =>
              LET ar == ApplyProposals("recv", q, grp[q].tree, CommitterOf(c), c.items, grp[q].ext) IN
              \/ (~ar.ok /\ ar.err = "rule:psk-unknown")      \* a member that does not hold a PSK must reject
              \/ (ar.ok /\ ar.applied = c.items /\ ar.added = c.added /\ ar.removed = c.removed)

\* C10: a committed list never breaks an RFC 9420 12.2 rule
CommittedListsLegal ==
    \A n \in 1..Len(commits) :
        LET c == commits[n]  its == c.items IN
        /\ ~\E i \in 1..Len(its) : its[i].kind = "upd" /\ its[i].by = CommitterOf(c)
        /\ ~\E i \in 1..Len(its) : its[i].kind = "rem" /\ its[i].target = CommitterOf(c)
        \* an external commit: exactly one external init, at most one removal (of the joiner's former leaf), by value
        /\ (c.external <=> Len(OfKind(its, "extinit")) = 1) /\ Len(OfKind(its, "extinit")) <= 1
        /\ (c.external => (Len(OfKind(its, "rem")) <= 1 /\ \A i \in 1..Len(its) : ~IsByRef(its[i]) /\ its[i].kind \in {"extinit", "rem", "psk", "rpsk"}))
        /\ Len(OfKind(its, "gce")) <= 1
        /\ (HasReinit(its) => Len(its) = 1)
        /\ \A i, j \in 1..Len(its) : (i # j /\ its[i].kind \in {"upd", "rem"} /\ its[j].kind \in {"upd", "rem"}) =>
              (IF its[i].kind = "upd" THEN its[i].by ELSE its[i].target) # (IF its[j].kind = "upd" THEN its[j].by ELSE its[j].target)
        /\ \A i \in 1..Len(its) : its[i].kind = "add" => kps[its[i].kp].bad = ""
        /\ (PathNeeded(its) => c.path)

TypeOK ==
    /\ \A p \in Parties : grp[p].st \in {"none", "member"}
    /\ Len(kps) <= MaxKps /\ Len(props) <= MaxProps /\ Len(commits) <= MaxCommits
=============================================================================
