------------------------------ MODULE MlsGroup ------------------------------
(***************************************************************************)
(* Core state machine of an MLS group as implemented by mls-rs             *)
(* (mls-rs/src/group/{mod,commit,message_processor,proposal_cache}.rs,     *)
(* tree_kem/{mod,kem,private,node}.rs).                                    *)
(*                                                                         *)
(* One action per public API call (= linearization point of the sequential *)
(* library).  Every action has an explicit outcome: "ok..." with the state *)
(* change, or "err:<class>" with the member state UNCHANGED.               *)
(*                                                                         *)
(* Symbolic cryptography: HPKE key pairs, epoch secrets are identifiers;   *)
(* a ciphertext sealed to key k is opened exactly by a holder of k.        *)
(*   key ids:  "g"            creator's first leaf key                     *)
(*             "kpL<i>"       leaf key of key package i                    *)
(*             "u<j>"         leaf key of update proposal j                *)
(*             "c<n>L"        committer leaf key of commit n               *)
(*             "c<n>n<x>"     key of node x set by the path of commit n    *)
(*   epoch secret id (ks): 0 for the creation epoch, else the commit id    *)
(***************************************************************************)
EXTENDS RatchetTree, TLC, Json

CONSTANTS
    Parties,        \* set of party names (strings)
    Creator,        \* the party that creates the group
    MaxCommits, MaxProps, MaxKps, MaxEpoch,   \* bounds on the registries (state constraint)
    PathRequiredChoices,                     \* subset of BOOLEAN: commit option path_required
    EncChoices,                              \* subset of BOOLEAN: handshake messages sent as PrivateMessage
    ByValueMax,                              \* max number of by-value proposals in one commit
    AllowConflicts                           \* TRUE: generate update/remove conflicts on one leaf

VARIABLES
    grp,        \* [Parties -> member state | NoGroup]
    zomb,       \* [Parties -> Seq(member state)]  retained groups of removed members
    kps,        \* Seq(key package record); id = index
    props,      \* Seq(proposal record); id = index          (the delivery service's log)
    commits,    \* Seq(commit record); id = index            (the delivery service's log)
    winner,     \* [epoch number -> commit id | 0] the commit the delivery service picked
    opt,        \* [pathReq |-> BOOLEAN]
    hist        \* history of steps for replay (hidden by VIEW)

vars == <<grp, zomb, kps, props, commits, winner, opt, hist>>
view == <<grp, zomb, kps, props, commits, winner, opt>>

Str(i) == ToString(i)
KpLeafKey(i) == "kpL" \o Str(i)
KpInitKey(i) == "kpI" \o Str(i)
UpdKey(j) == "u" \o Str(j)
CommitLeafKey(n) == "c" \o Str(n) \o "L"
PathKey(n, x) == "c" \o Str(n) \o "n" \o Str(x)

NoGroup == [st |-> "none"]
HasGroup(p) == grp[p].st = "member"

Range(f) == {f[x] : x \in DOMAIN f}
SeqSet(s) == {s[i] : i \in 1..Len(s)}
Last(s) == s[Len(s)]

-----------------------------------------------------------------------------
(* Proposal items as they travel inside a commit (wire order within a type  *)
(* is preserved by ProposalBundle on both sides).                            *)
\*   [kind |-> "add", ref |-> propId|0, by |-> leaf, kp |-> kpId]
\*   [kind |-> "rem", ref |-> propId|0, by |-> leaf, target |-> leaf]
\*   [kind |-> "upd", ref |-> propId,   by |-> leaf, key |-> keyId, who, cv]
IsByRef(it) == it.ref # 0

ItemOfProp(j) ==
    LET pr == props[j] IN
    CASE pr.kind = "add" -> [kind |-> "add", ref |-> j, by |-> pr.byLeaf, kp |-> pr.kp]
      [] pr.kind = "rem" -> [kind |-> "rem", ref |-> j, by |-> pr.byLeaf, target |-> pr.target]
      [] pr.kind = "upd" -> [kind |-> "upd", ref |-> j, by |-> pr.byLeaf, key |-> UpdKey(j)]

OfKind(items, k) == FilterSeq(items, LAMBDA it : it.kind = k)

(***************************************************************************)
(* ApplyProposals: GroupState::apply_resolved + ProposalApplier +          *)
(* TreeKemPublic::batch_edit.  mode = "send" drops by-reference offenders  *)
(* (FilterStrategy::IgnoreByRef), mode = "recv" fails on any offender.     *)
(* Returns [ok, err, tree, applied (items), added (seq of <<kp, leaf>>),   *)
(*          removed (set of leaves), updated (set of leaves)].             *)
(***************************************************************************)
Res(ok, err, tree, applied, added, removed, updated) ==
    [ok |-> ok, err |-> err, tree |-> tree, applied |-> applied, added |-> added,
     removed |-> removed, updated |-> updated]

\* offender handling: TRUE = keep, FALSE = drop, "err" = fail
Verdict(mode, it, valid) == IF valid THEN "keep" ELSE IF mode = "send" /\ IsByRef(it) THEN "drop" ELSE "err"

\* removes are applied in reverse bundle order (batch_edit)
RECURSIVE ApplyRemoves(_, _, _, _, _)
ApplyRemoves(mode, tree, rems, i, acc) ==
    \* acc = [tree, kept (seq, reverse order), err]
    IF i = 0 THEN acc
    ELSE LET it == rems[i]
             valid == it.target \in OccupiedLeaves(acc.tree)
             v == Verdict(mode, it, valid)
         IN IF v = "err" THEN [acc EXCEPT !.err = "rule:remove-nonmember"]
            ELSE IF v = "drop" THEN ApplyRemoves(mode, tree, rems, i - 1, acc)
            ELSE ApplyRemoves(mode, tree, rems, i - 1,
                    [acc EXCEPT !.tree = RemoveLeaf(acc.tree, it.target), !.kept = <<it>> \o acc.kept])

RECURSIVE ApplyUpdates(_, _, _, _)
ApplyUpdates(mode, upds, i, acc) ==
    \* acc = [tree, kept, err, leaves]
    IF i > Len(upds) THEN acc
    ELSE LET it == upds[i]
             valid == it.by \in OccupiedLeaves(acc.tree) /\ it.by \notin acc.leaves
             v == Verdict(mode, it, valid)
         IN IF v = "err" THEN [acc EXCEPT !.err = "rule:update-nonmember"]
            ELSE IF v = "drop" THEN ApplyUpdates(mode, upds, i + 1, acc)
            ELSE LET old == Node(acc.tree, 2 * it.by)
                     nl == MkLeaf(it.key, old.who, old.cv, "upd")
                 IN ApplyUpdates(mode, upds, i + 1,
                        [acc EXCEPT !.tree = UpdateLeaf(acc.tree, it.by, nl),
                                    !.kept = acc.kept \o <<it>>, !.leaves = acc.leaves \cup {it.by}])

RECURSIVE ApplyAdds(_, _, _, _)
ApplyAdds(mode, adds, i, acc) ==
    \* acc = [tree, kept, err, added, start]
    IF i > Len(adds) THEN acc
    ELSE LET it == adds[i]
             kp == kps[it.kp]
             valid == kp.owner \notin Members(acc.tree) /\ it.kp \notin {a[1] : a \in SeqSet(acc.added)}
             v == Verdict(mode, it, valid)
         IN IF v = "err" THEN [acc EXCEPT !.err = "rule:add-duplicate"]
            ELSE IF v = "drop" THEN ApplyAdds(mode, adds, i + 1, acc)
            ELSE LET l == NextEmptyLeaf(acc.tree, acc.start)
                     nl == MkLeaf(KpLeafKey(it.kp), kp.owner, kp.cv, "kp")
                 IN ApplyAdds(mode, adds, i + 1,
                        [acc EXCEPT !.tree = AddLeafAt(acc.tree, l, nl), !.kept = acc.kept \o <<it>>,
                                    !.added = acc.added \o <<<<it.kp, l>>>>, !.start = l])

ApplyProposals(mode, tree, committer, items) ==
    LET \* proposer / committer rules (filtering.rs)
        updNotCommitter == FilterSeq(items, LAMBDA it : ~(it.kind = "upd" /\ it.by = committer /\ Verdict(mode, it, FALSE) = "drop"))
        bad1 == \E i \in 1..Len(items) : items[i].kind = "upd" /\ items[i].by = committer /\ Verdict(mode, items[i], FALSE) = "err"
        remNotCommitter == FilterSeq(updNotCommitter, LAMBDA it : ~(it.kind = "rem" /\ it.target = committer /\ Verdict(mode, it, FALSE) = "drop"))
        bad2 == \E i \in 1..Len(updNotCommitter) : updNotCommitter[i].kind = "rem" /\ updNotCommitter[i].target = committer
                    /\ Verdict(mode, updNotCommitter[i], FALSE) = "err"
        its == remNotCommitter
        rems == OfKind(its, "rem")
        r1 == ApplyRemoves(mode, tree, rems, Len(rems), [tree |-> tree, kept |-> <<>>, err |-> ""])
        r2 == ApplyUpdates(mode, OfKind(its, "upd"), 1, [tree |-> r1.tree, kept |-> <<>>, err |-> "", leaves |-> {}])
        r3 == ApplyAdds(mode, OfKind(its, "add"), 1, [tree |-> r2.tree, kept |-> <<>>, err |-> "", added |-> <<>>, start |-> 0])
        applied == r3.kept \o r1.kept \o r2.kept      \* bundle order: adds, removes, updates
    IN IF bad1 THEN Res(FALSE, "rule:update-by-committer", tree, <<>>, <<>>, {}, {})
       ELSE IF bad2 THEN Res(FALSE, "rule:remove-committer", tree, <<>>, <<>>, {}, {})
       ELSE IF r1.err # "" THEN Res(FALSE, r1.err, tree, <<>>, <<>>, {}, {})
       ELSE IF r2.err # "" THEN Res(FALSE, r2.err, tree, <<>>, <<>>, {}, {})
       ELSE IF r3.err # "" THEN Res(FALSE, r3.err, tree, <<>>, <<>>, {}, {})
       ELSE Res(TRUE, "", Trim(r3.tree), applied, r3.added,
                {it.target : it \in SeqSet(r1.kept)}, r2.leaves)

\* path_update_required (proposal_filter.rs)
PathNeeded(applied) == applied = <<>> \/ \E i \in 1..Len(applied) : applied[i].kind \in {"upd", "rem"}

-----------------------------------------------------------------------------
(* Private keys.  priv is a function from node indices to key ids.          *)
RestrictFn(f, S) == [x \in (DOMAIN f \cap S) |-> f[x]]
MergeFn(f, g) == [x \in (DOMAIN f \cup DOMAIN g) |-> IF x \in DOMAIN g THEN g[x] ELSE f[x]]

NonBlankNodes(tree) == {x \in 0..(Len(tree) - 1) : ~IsBlank(Node(tree, x))}

\* Group::provisional_private_tree: drop keys of nodes blanked by the proposals; an applied own
\* update replaces the leaf key and clears the rest.
ProvisionalPriv(g, newTree, applied) ==
    LET own == {i \in 1..Len(applied) : applied[i].kind = "upd" /\ applied[i].by = g.leaf} IN
    IF own # {} THEN LET it == applied[CHOOSE i \in own : TRUE] IN (2 * g.leaf :> it.key)
    ELSE RestrictFn(g.priv, NonBlankNodes(newTree) \cup {2 * g.leaf})

\* TreeKem::encap on the tree after proposals: fresh keys on the filtered direct path
EncapKeys(n, tree, leaf) ==
    LET fdp == FilteredDirectPath(tree, leaf) IN [x \in SeqSet(fdp) |-> PathKey(n, x)]

\* recipients of the path secret of direct-path node x: resolution of its copath child minus new leaves
CopathChildOf(tree, leaf, x) ==
    LET dp == DirectPathOf(tree, leaf)  cp == CopathOf(tree, leaf) IN cp[IndexOf(dp, x)]

Recipients(tree, leaf, x, addedLeaves) ==
    FilterSeq(Resolution(tree, CopathChildOf(tree, leaf, x)), LAMBDA y : ~(IsLeafNode(y) /\ (y \div 2) \in addedLeaves))

(* TreeKem::decap for receiver (leaf r, private keys priv) of the path of    *)
(* committer c on tree (path already installed).  Returns the node whose    *)
(* key opens the ciphertext and the key id the ciphertext was sealed to,    *)
(* or ok = FALSE.                                                           *)
RECURSIVE WalkDown(_, _, _, _)
WalkDown(tree, dpr, i, r) ==   \* first non-blank node at position <= i of <<leaf>> \o direct path
    IF i = 0 THEN 2 * r
    ELSE IF ~IsBlank(Node(tree, dpr[i])) THEN dpr[i] ELSE WalkDown(tree, dpr, i - 1, r)

Decap(tree, c, r, priv, recips, addedLeaves) ==
    LET n == LeafCount(tree)
        lca == CommonAncestor(c, r, n)
        dpr == DirectPathOf(tree, r)
        lvl == Level(lca, n)                 \* direct path position of the LCA
        below == WalkDown(tree, dpr, lvl - 1, r)
        resolved == IF below \in DOMAIN priv THEN below ELSE 2 * r
        cpChild == IF lvl = 1 THEN 2 * r ELSE dpr[lvl - 1]
        reso == FilterSeq(Resolution(tree, cpChild), LAMBDA y : ~(IsLeafNode(y) /\ (y \div 2) \in addedLeaves))
        pos == IndexOf(reso, resolved)
    IN IF lca \notin DOMAIN recips THEN [ok |-> FALSE, why |-> "lca-filtered"]
       ELSE IF pos = 0 \/ pos > Len(recips[lca]) THEN [ok |-> FALSE, why |-> "not-in-resolution"]
       ELSE IF resolved \notin DOMAIN priv THEN [ok |-> FALSE, why |-> "no-key"]
       ELSE IF priv[resolved] # recips[lca][pos] THEN [ok |-> FALSE, why |-> "wrong-key"]
       ELSE [ok |-> TRUE, lca |-> lca]

\* keys a receiver / joiner learns: path nodes of the commit that are ancestors of its leaf at or above the LCA
LearnedKeys(tree, c, r, pathKeys) ==
    LET n == LeafCount(tree)
        lvl == Level(CommonAncestor(c, r, n), n)
        dpr == DirectPathOf(tree, r)
    IN [x \in {y \in DOMAIN pathKeys : \E i \in lvl..Len(dpr) : dpr[i] = y} |-> pathKeys[x]]

-----------------------------------------------------------------------------
(* Projection: what the harness can observe of a member; same shape as      *)
(* project() in harness/src/project.rs.                                     *)
ProjNode(nd) ==
    CASE nd.t = "B" -> [t |-> "B"]
      [] nd.t = "L" -> [t |-> "L", k |-> nd.k, who |-> nd.who, cv |-> nd.cv, src |-> nd.src]
      [] nd.t = "P" -> [t |-> "P", k |-> nd.k, um |-> nd.um]

SetToSortedSeq(S) ==
    LET RECURSIVE F(_)
        F(T) == IF T = {} THEN <<>> ELSE LET m == CHOOSE x \in T : \A y \in T : x <= y IN <<m>> \o F(T \ {m})
    IN F(S)

Proj(g) ==
    IF g.st = "none" THEN [st |-> "none"]
    ELSE [st |-> g.st, epoch |-> g.epoch, ks |-> g.ks, leaf |-> g.leaf,
          tree |-> [i \in 1..Len(g.tree) |-> ProjNode(g.tree[i])],
          priv |-> LET ns == SetToSortedSeq(DOMAIN g.priv) IN [i \in 1..Len(ns) |-> <<ns[i], g.priv[ns[i]]>>],
          cache |-> SetToSortedSeq(g.cache),
          pend |-> g.pend]

Step(a, p, args, res, out) ==
    [a |-> a, p |-> p, args |-> args, res |-> res, out |-> out, post |-> Proj(grp'[p])]

Record(a, p, args, res, out) == hist' = Append(hist, Step(a, p, args, res, out))

-----------------------------------------------------------------------------
Init ==
    /\ \E pr \in PathRequiredChoices, en \in EncChoices : opt = [pathReq |-> pr, enc |-> en]
    /\ grp = [p \in Parties |->
                IF p = Creator
                THEN [st |-> "member", epoch |-> 0, ks |-> 0, leaf |-> 0,
                      tree |-> <<MkLeaf("g", Creator, 0, "kp")>>,
                      priv |-> (0 :> "g"), cache |-> {}, pend |-> 0, pendUpd |-> {}, seenC |-> {}]
                ELSE NoGroup]
    /\ zomb = [p \in Parties |-> <<>>]
    /\ kps = <<>> /\ props = <<>> /\ commits = <<>>
    /\ winner = [e \in 0..MaxEpoch |-> 0]
    /\ hist = <<>>

\* ---- key packages ----
GenKeyPackage(p) ==
    /\ Len(kps) < MaxKps
    /\ ~HasGroup(p)
    /\ ~\E i \in 1..Len(kps) : kps[i].owner = p /\ ~kps[i].used      \* one outstanding package per party
    /\ kps' = Append(kps, [owner |-> p, cv |-> 0, used |-> FALSE])
    /\ UNCHANGED <<grp, zomb, props, commits, winner, opt>>
    /\ Record("GenKeyPackage", p, [kp |-> Len(kps) + 1], "ok", [x |-> 0])

\* ---- proposals (by reference) ----
NewProp(pr) ==
    /\ Len(props) < MaxProps
    /\ props' = Append(props, pr)

Propose(p, pr, argrec) ==
    LET g == grp[p]  j == Len(props) + 1 IN
    /\ HasGroup(p)
    /\ NewProp(pr @@ [by |-> p, byLeaf |-> g.leaf, ks |-> g.ks, epoch |-> g.epoch])
    /\ grp' = [grp EXCEPT ![p].cache = @ \cup {j},
                          ![p].pendUpd = IF pr.kind = "upd" THEN @ \cup {j} ELSE @]
    /\ Record("Propose", p, argrec @@ [prop |-> j, kind |-> pr.kind], "ok", [x |-> 0])
    /\ UNCHANGED <<zomb, kps, commits, winner, opt>>

ProposeAdd(p, i) ==
    /\ i \in 1..Len(kps) /\ ~kps[i].used
    /\ HasGroup(p) /\ kps[i].owner \notin Members(grp[p].tree)
    /\ ~\E j \in 1..Len(props) : props[j].kind = "add" /\ props[j].ks = grp[p].ks   \* at most one by-reference add per epoch (DESIGN 3.4)
    /\ Propose(p, [kind |-> "add", kp |-> i, target |-> 0], [kp |-> i])

ProposeRemove(p, l) ==
    /\ HasGroup(p) /\ l \in OccupiedLeaves(grp[p].tree) /\ l # grp[p].leaf
    \* an identical proposal (same sender, content and epoch) is the same message with a deterministic
    \* signature scheme: the model keeps proposals distinct
    \* (and at most one by-reference removal per leaf and epoch: which of two duplicates the committer
    \* keeps depends on the implementation's hash-map order, DESIGN 3.4)
    /\ ~\E j \in 1..Len(props) : props[j].kind = "rem" /\ props[j].target = l /\ props[j].ks = grp[p].ks
    /\ Propose(p, [kind |-> "rem", kp |-> 0, target |-> l], [target |-> l])

ProposeUpdate(p) ==
    /\ HasGroup(p)
    /\ (AllowConflicts \/ grp[p].pendUpd = {})
    /\ Propose(p, [kind |-> "upd", kp |-> 0, target |-> 0], [x |-> 0])

\* a member receives a proposal message
DeliverProposal(q, j) ==
    LET g == grp[q]  pr == props[j] IN
    /\ j \in 1..Len(props) /\ HasGroup(q) /\ pr.by # q
    /\ j \notin g.cache
    /\ IF pr.ks = g.ks /\ pr.epoch = g.epoch
       THEN /\ grp' = [grp EXCEPT ![q].cache = @ \cup {j}]
            /\ Record("DeliverProposal", q, [prop |-> j], "ok", [x |-> 0])
       ELSE /\ UNCHANGED grp
            /\ Record("DeliverProposal", q, [prop |-> j], "err:epoch", [x |-> 0])
    /\ UNCHANGED <<zomb, kps, props, commits, winner, opt>>

\* ---- commit construction (Group::commit_internal) ----
ByValueItems(g) ==
    \* candidate by-value proposals: add of an unused package, removal of a leaf (also invalid ones)
    {[kind |-> "add", ref |-> 0, by |-> g.leaf, kp |-> i] : i \in {i \in 1..Len(kps) : ~kps[i].used}}
    \cup {[kind |-> "rem", ref |-> 0, by |-> g.leaf, target |-> l] : l \in LeafSlots(g.tree)}

ByValueSeqs(g) ==
    {<<>>} \cup (IF ByValueMax >= 1 THEN {<<a>> : a \in ByValueItems(g)} ELSE {})
    \cup (IF ByValueMax >= 2 THEN {<<a, b>> : a \in ByValueItems(g), b \in ByValueItems(g)} ELSE {})

CachedItems(g) ==
    \* by-reference proposals in the committer's cache; order within a type is the hash-map order of the
    \* implementation: the model fixes ascending proposal id and the configurations keep at most one
    \* by-reference add per commit (DESIGN 3.4)
    LET ids == SetToSortedSeq(g.cache) IN [i \in 1..Len(ids) |-> ItemOfProp(ids[i])]

Commit(p, byval) ==
    LET g == grp[p]
        n == Len(commits) + 1
        items == CachedItems(g) \o byval
        ar == ApplyProposals("send", g.tree, g.leaf, items)
        args == [byval |-> byval]
    IN
    /\ HasGroup(p) /\ Len(commits) < MaxCommits /\ g.epoch < MaxEpoch
    /\ Cardinality({j \in g.cache : props[j].kind = "add"}) <= 1
    /\ IF \E i \in 1..Len(byval) : byval[i].kind = "rem" /\ byval[i].target \notin OccupiedLeaves(g.tree)
       THEN \* CommitBuilder::remove_member validates the index against the current tree
            /\ UNCHANGED <<grp, commits>>
            /\ Record("Commit", p, args, "err:rule:remove-nonmember", [x |-> 0])
       ELSE IF g.pend # 0
       THEN /\ UNCHANGED <<grp, commits>>
            /\ Record("Commit", p, args, "err:pending-exists", [x |-> 0])
       ELSE IF ~ar.ok
       THEN /\ UNCHANGED <<grp, commits>>
            /\ Record("Commit", p, args, "err:" \o ar.err, [x |-> 0])
       ELSE
         LET withPath == opt.pathReq \/ PathNeeded(ar.applied)
             priv0 == ProvisionalPriv(g, ar.tree, ar.applied)
             addedLeaves == {a[2] : a \in SeqSet(ar.added)}
             pathKeys == IF withPath THEN EncapKeys(n, ar.tree, g.leaf) ELSE <<>>
             old == Node(ar.tree, 2 * g.leaf)
             newLeaf == MkLeaf(CommitLeafKey(n), old.who, old.cv, "commit")
             tree1 == IF withPath THEN ApplyPath(ar.tree, g.leaf, newLeaf, pathKeys) ELSE ar.tree
             recips == [x \in DOMAIN pathKeys |->
                          LET rs == Recipients(tree1, g.leaf, x, addedLeaves) IN [i \in 1..Len(rs) |-> Node(tree1, rs[i]).k]]
             newPriv == IF withPath
                        THEN MergeFn(RestrictFn(priv0, {}), MergeFn(pathKeys, (2 * g.leaf :> CommitLeafKey(n))))
                        ELSE priv0
             unused == {j \in g.cache : ~\E i \in 1..Len(ar.applied) : ar.applied[i].ref = j}
             c == [by |-> p, byLeaf |-> g.leaf, baseKs |-> g.ks, baseEpoch |-> g.epoch,
                   items |-> ar.applied, path |-> withPath, pathKeys |-> pathKeys, recips |-> recips,
                   added |-> ar.added, removed |-> ar.removed, newTree |-> tree1, newPriv |-> newPriv,
                   unused |-> unused]
         IN /\ commits' = Append(commits, c)
            /\ grp' = [grp EXCEPT ![p].pend = n]
            /\ Record("Commit", p, args, "ok",
                      [commit |-> n, path |-> withPath,
                       applied |-> [i \in 1..Len(ar.applied) |-> [kind |-> ar.applied[i].kind, ref |-> ar.applied[i].ref]],
                       unused |-> SetToSortedSeq(unused),
                       welcome |-> [i \in 1..Len(ar.added) |-> ar.added[i][1]],
                       addedLeaves |-> [i \in 1..Len(ar.added) |-> ar.added[i][2]],
                       recips |-> LET xs == SetToSortedSeq(DOMAIN recips) IN [i \in 1..Len(xs) |-> [node |-> xs[i], keys |-> recips[xs[i]]]],
                       welcomeKeys |-> [i \in 1..Len(ar.added) |-> KpInitKey(ar.added[i][1])],
                       newTree |-> [i \in 1..Len(tree1) |-> ProjNode(tree1[i])]])
    /\ UNCHANGED <<zomb, kps, props, winner, opt>>

ClearPending(p) ==
    /\ HasGroup(p) /\ grp[p].pend # 0
    /\ grp' = [grp EXCEPT ![p].pend = 0]
    /\ Record("ClearPending", p, [x |-> 0], "ok", [x |-> 0])
    /\ UNCHANGED <<zomb, kps, props, commits, winner, opt>>

\* the delivery service orders commits: one winner per epoch
DsChoose(n) ==
    /\ n \in 1..Len(commits)
    /\ winner[commits[n].baseEpoch] = 0
    /\ IF commits[n].baseEpoch = 0 THEN TRUE
       ELSE winner[commits[n].baseEpoch - 1] = commits[n].baseKs   \* extends the chosen history
    /\ winner' = [winner EXCEPT ![commits[n].baseEpoch] = n]
    /\ hist' = hist
    /\ UNCHANGED <<grp, zomb, kps, props, commits, opt>>

IsWinner(n) == winner[commits[n].baseEpoch] = n

\* state after applying commit n as its author
ApplyOwn(g, n) ==
    LET c == commits[n] IN
    [g EXCEPT !.epoch = g.epoch + 1, !.ks = n, !.tree = c.newTree, !.priv = c.newPriv,
              !.cache = {}, !.pend = 0, !.pendUpd = {}, !.seenC = {}]

ApplyPending(p) ==
    LET g == grp[p] IN
    /\ HasGroup(p)
    /\ IF g.pend = 0
       THEN /\ UNCHANGED grp
            /\ Record("ApplyPending", p, [x |-> 0], "err:no-pending", [x |-> 0])
       ELSE /\ IsWinner(g.pend)
            /\ grp' = [grp EXCEPT ![p] = ApplyOwn(g, g.pend)]
            /\ Record("ApplyPending", p, [x |-> 0], "ok", [commit |-> g.pend])
    /\ UNCHANGED <<zomb, kps, props, commits, winner, opt>>

\* a member processes a commit message (MessageProcessor::process_commit)
DeliverCommit(q, n) ==
    LET g == grp[q]
        c == commits[n]
        args == [commit |-> n]
        refs == {c.items[i].ref : i \in {i \in 1..Len(c.items) : IsByRef(c.items[i])}}
        ar == ApplyProposals("recv", g.tree, c.byLeaf, c.items)
        addedLeaves == {a[2] : a \in SeqSet(ar.added)}
    IN
    /\ n \in 1..Len(commits) /\ HasGroup(q)
    /\ (IsWinner(n) \/ g.epoch > c.baseEpoch)      \* delivery-service contract: winners, or stale traffic
    /\ IF c.baseEpoch # g.epoch \/ c.baseKs # g.ks
       THEN /\ UNCHANGED <<grp, zomb>>
            /\ Record("DeliverCommit", q, args, "err:epoch", [x |-> 0])
       ELSE IF c.by = q /\ g.pend = n
       THEN \* own commit echoed back: matched by message hash, pending commit applied
            /\ grp' = [grp EXCEPT ![q] = ApplyOwn(g, n)]
            /\ UNCHANGED zomb
            /\ Record("DeliverCommit", q, args, "ok:own", [x |-> 0])
       ELSE IF c.by = q /\ (c.path \/ opt.enc)
       THEN \* own commit whose pending state was cleared: the path secrets are gone (and an own
            \* PrivateMessage cannot be opened); a path-less public commit is processed like anybody else's
            /\ UNCHANGED <<grp, zomb>>
            /\ Record("DeliverCommit", q, args, "err:own-commit", [x |-> 0])
       ELSE IF ~(refs \subseteq g.cache)
       THEN /\ UNCHANGED <<grp, zomb>>
            /\ Record("DeliverCommit", q, args, "err:proposal-not-found", [x |-> 0])
       ELSE IF ~ar.ok
       THEN /\ UNCHANGED <<grp, zomb>>
            /\ Record("DeliverCommit", q, args, "err:" \o ar.err, [x |-> 0])
       ELSE IF g.leaf \in ar.removed
       THEN \* removed member: reports the removal and does not advance; an encrypted commit can be
            \* decrypted only once (its message key is consumed), a second delivery is a replay
            IF opt.enc /\ n \in g.seenC
            THEN /\ UNCHANGED <<grp, zomb>>
                 /\ Record("DeliverCommit", q, args, "err:replay", [x |-> 0])
            ELSE /\ grp' = [grp EXCEPT ![q].seenC = IF opt.enc THEN @ \cup {n} ELSE @]
                 /\ UNCHANGED zomb
                 /\ Record("DeliverCommit", q, args, "ok:removed", [x |-> 0])
       ELSE
         LET priv0 == ProvisionalPriv(g, ar.tree, ar.applied)
             old == Node(ar.tree, 2 * c.byLeaf)
             newLeaf == MkLeaf(CommitLeafKey(n), old.who, old.cv, "commit")
             tree1 == IF c.path THEN ApplyPath(ar.tree, c.byLeaf, newLeaf, c.pathKeys) ELSE ar.tree
             dec == IF c.path THEN Decap(tree1, c.byLeaf, g.leaf, priv0, c.recips, addedLeaves) ELSE [ok |-> TRUE]
             learned == IF c.path THEN LearnedKeys(tree1, c.byLeaf, g.leaf, c.pathKeys) ELSE <<>>
             \* keys at or above the LCA are replaced (None where the path has no node)
             keep == IF c.path
                     THEN LET n0 == LeafCount(tree1)
                              lvl == Level(CommonAncestor(c.byLeaf, g.leaf, n0), n0)
                              dpr == DirectPathOf(tree1, g.leaf)
                          IN {x \in DOMAIN priv0 : ~\E i \in lvl..Len(dpr) : dpr[i] = x}
                     ELSE DOMAIN priv0
         IN IF ~dec.ok
            THEN /\ UNCHANGED <<grp, zomb>>
                 /\ Record("DeliverCommit", q, args, "err:decap-" \o dec.why, [x |-> 0])
            ELSE /\ grp' = [grp EXCEPT ![q] = [g EXCEPT !.epoch = g.epoch + 1, !.ks = n, !.tree = tree1,
                                                        !.priv = MergeFn(RestrictFn(priv0, keep), learned),
                                                        !.cache = {}, !.pend = 0, !.pendUpd = {}, !.seenC = {}]]
                 /\ UNCHANGED zomb
                 /\ Record("DeliverCommit", q, args, IF c.by = q THEN "ok:own" ELSE "ok", [x |-> 0])
    /\ UNCHANGED <<kps, props, commits, winner, opt>>

\* a party joins with the Welcome of commit n (Group::from_welcome_message)
JoinWelcome(q, n) ==
    LET c == commits[n]
        mine == {i \in 1..Len(c.added) : kps[c.added[i][1]].owner = q /\ ~kps[c.added[i][1]].used}
    IN
    /\ n \in 1..Len(commits) /\ IsWinner(n)
    /\ ~HasGroup(q)
    /\ mine # {}
    /\ LET i == CHOOSE i \in mine : TRUE
           kp == c.added[i][1]
           l == c.added[i][2]
           learned == IF c.path THEN LearnedKeys(c.newTree, c.byLeaf, l, c.pathKeys) ELSE <<>>
       IN /\ grp' = [grp EXCEPT ![q] = [st |-> "member", epoch |-> c.baseEpoch + 1, ks |-> n, leaf |-> l,
                                        tree |-> c.newTree, priv |-> MergeFn((2 * l :> KpLeafKey(kp)), learned),
                                        cache |-> {}, pend |-> 0, pendUpd |-> {}, seenC |-> {}]]
          /\ kps' = [kps EXCEPT ![kp].used = TRUE]
          /\ Record("JoinWelcome", q, [commit |-> n, kp |-> kp], "ok", [x |-> 0])
    /\ UNCHANGED <<zomb, props, commits, winner, opt>>

\* a removed member's group object is retired (kept as a zombie that must reject all later traffic)
Retire(q) ==
    /\ HasGroup(q)
    /\ \E n \in 1..Len(commits) : IsWinner(n) /\ commits[n].baseKs = grp[q].ks /\ grp[q].leaf \in commits[n].removed
    /\ zomb' = [zomb EXCEPT ![q] = Append(@, grp[q])]
    /\ grp' = [grp EXCEPT ![q] = NoGroup]
    /\ Record("Retire", q, [x |-> 0], "ok", [x |-> 0])
    /\ UNCHANGED <<kps, props, commits, winner, opt>>

Next ==
    \/ \E p \in Parties : GenKeyPackage(p)
    \/ \E p \in Parties : \E i \in 1..Len(kps) : ProposeAdd(p, i)
    \/ \E p \in Parties : \E l \in 0..7 : ProposeRemove(p, l)
    \/ \E p \in Parties : ProposeUpdate(p)
    \/ \E q \in Parties : \E j \in 1..Len(props) : DeliverProposal(q, j)
    \/ \E p \in Parties : HasGroup(p) /\ \E bv \in ByValueSeqs(grp[p]) : Commit(p, bv)
    \/ \E p \in Parties : ClearPending(p)
    \/ \E n \in 1..Len(commits) : DsChoose(n)
    \/ \E p \in Parties : ApplyPending(p)
    \/ \E q \in Parties : \E n \in 1..Len(commits) : DeliverCommit(q, n)
    \/ \E q \in Parties : \E n \in 1..Len(commits) : JoinWelcome(q, n)
    \/ \E q \in Parties : Retire(q)

Spec == Init /\ [][Next]_vars

-----------------------------------------------------------------------------
(* Invariants *)
MemberStates == {grp[p] : p \in {p \in Parties : HasGroup(p)}}

\* C01: everybody in the same epoch secret holds the same epoch number and tree
Agreement ==
    \A p, q \in Parties : (HasGroup(p) /\ HasGroup(q) /\ grp[p].ks = grp[q].ks) =>
        /\ grp[p].epoch = grp[q].epoch
        /\ grp[p].tree = grp[q].tree

\* C01: a member's epoch is the length of the chosen commit chain behind its secret
RECURSIVE ChainLen(_)
ChainLen(ks) == IF ks = 0 THEN 0 ELSE 1 + ChainLen(commits[ks].baseKs)
EpochIsChainLength == \A p \in Parties : HasGroup(p) => grp[p].epoch = ChainLen(grp[p].ks)

\* C08: every member's tree is structurally valid, own leaf is where it believes it is
TreesValid ==
    \A p \in Parties : HasGroup(p) =>
        /\ StructurallyValid(grp[p].tree)
        /\ grp[p].leaf \in OccupiedLeaves(grp[p].tree)
        /\ Node(grp[p].tree, 2 * grp[p].leaf).who = p

\* C09: private keys match the public tree, none for a blank node, only on the own direct path
PrivMatchesPub ==
    \A p \in Parties : HasGroup(p) =>
        LET g == grp[p] IN
        /\ 2 * g.leaf \in DOMAIN g.priv
        /\ \A x \in DOMAIN g.priv :
              /\ ~IsBlank(Node(g.tree, x))
              /\ Node(g.tree, x).k = g.priv[x]
              /\ (x = 2 * g.leaf \/ x \in SeqSet(DirectPathOf(g.tree, g.leaf)))

\* C02: path secrets are sealed only to keys in the new tree's copath resolutions, never to a leaf
\* added by the same commit or to a key of a removed leaf
RecipientsEntitled ==
    \A n \in 1..Len(commits) :
        LET c == commits[n]
            treeKeys == {Node(c.newTree, x).k : x \in NonBlankNodes(c.newTree)}
            addedKeys == {KpLeafKey(a[1]) : a \in SeqSet(c.added)}
        IN \A x \in DOMAIN c.recips : \A i \in 1..Len(c.recips[x]) :
              /\ c.recips[x][i] \in treeKeys
              /\ c.recips[x][i] \notin addedKeys

\* C02/C01: every member other than the committer and the members it removes can decrypt the path:
\* checked as "no winner commit is ever undecryptable by a member in its base epoch"
DecapErrs == {"err:decap-lca-filtered", "err:decap-not-in-resolution", "err:decap-no-key", "err:decap-wrong-key"}
NoDecapFailure ==
    \A i \in 1..Len(hist) : ~(hist[i].a = "DeliverCommit" /\ hist[i].res \in DecapErrs)

\* C11: one pending commit, built on the member's current epoch
PendingOnCurrentEpoch ==
    \A p \in Parties : (HasGroup(p) /\ grp[p].pend # 0) =>
        /\ commits[grp[p].pend].by = p
        /\ commits[grp[p].pend].baseKs = grp[p].ks

TypeOK ==
    /\ \A p \in Parties : grp[p].st \in {"none", "member"}
    /\ Len(kps) <= MaxKps /\ Len(props) <= MaxProps /\ Len(commits) <= MaxCommits
=============================================================================
