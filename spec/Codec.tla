------------------------------- MODULE Codec -------------------------------
(***************************************************************************)
(* RFC 9420 section 2.1 presentation language as a reference decoder over  *)
(* byte sequences (Seq(0..255)), position-passing style: every decoder     *)
(* takes the input b and the index p of the next byte (1-based) and        *)
(* returns [ok |-> BOOLEAN, v |-> value, p |-> next index].                *)
(*   uint8/16/32/64, variable-length integers (2.1.2, shortest form only), *)
(*   opaque<V>, vector<V> of fixed-width items, optional<T>.               *)
(* The implementation's mls-rs-codec primitives are validated against      *)
(* these definitions row by row (CodecTrace.tla), the framing schemas of   *)
(* WireSchema.tla are built from them.                                     *)
(***************************************************************************)
EXTENDS Naturals, Sequences

Fail == [ok |-> FALSE, v |-> 0, p |-> 0]
Ok(v, p) == [ok |-> TRUE, v |-> v, p |-> p]

Avail(b, p, n) == p + n - 1 <= Len(b)

RECURSIVE BE(_, _, _)          \* big-endian value of n bytes starting at p
BE(b, p, n) == IF n = 0 THEN 0 ELSE BE(b, p, n - 1) * 256 + b[p + n - 1]

UInt(b, p, n) == IF Avail(b, p, n) THEN Ok(BE(b, p, n), p + n) ELSE Fail
U8(b, p) == UInt(b, p, 1)
U16(b, p) == UInt(b, p, 2)
\* (TLC integers are 32-bit: wider values are kept as sequences of 16-bit halves)
U32(b, p) == IF Avail(b, p, 4) THEN Ok(<<BE(b, p, 2), BE(b, p + 2, 2)>>, p + 4) ELSE Fail
U64(b, p) == IF Avail(b, p, 8) THEN Ok(<<BE(b, p, 2), BE(b, p + 2, 2), BE(b, p + 4, 2), BE(b, p + 6, 2)>>, p + 8) ELSE Fail

\* 2.1.2: the two most significant bits give the length (1, 2, 4 bytes; 11 is invalid); the value must
\* use the shortest encoding
VarInt(b, p) ==
    IF ~Avail(b, p, 1) THEN Fail
    ELSE LET pre == b[p] \div 64
             first == b[p] % 64
         IN IF pre = 0 THEN Ok(first, p + 1)
            ELSE IF pre = 1 THEN
                 (IF ~Avail(b, p, 2) THEN Fail
                  ELSE LET v == first * 256 + b[p + 1] IN IF v < 64 THEN Fail ELSE Ok(v, p + 2))
            ELSE IF pre = 2 THEN
                 (IF ~Avail(b, p, 4) THEN Fail
                  ELSE LET v == ((first * 256 + b[p + 1]) * 256 + b[p + 2]) * 256 + b[p + 3] IN
                       IF v < 16384 THEN Fail ELSE Ok(v, p + 4))
            ELSE Fail

\* opaque<V>: length header, then exactly that many bytes (never beyond the input)
Opaque(b, p) ==
    LET h == VarInt(b, p) IN
    IF ~h.ok THEN Fail
    ELSE IF ~Avail(b, h.p, h.v) THEN Fail
    ELSE Ok(SubSeq(b, h.p, h.p + h.v - 1), h.p + h.v)

\* vector<V> of items of fixed width w: the byte length must be a multiple of w and inside the input
VectorFixed(b, p, w) ==
    LET h == VarInt(b, p) IN
    IF ~h.ok THEN Fail
    ELSE IF ~Avail(b, h.p, h.v) \/ h.v % w # 0 THEN Fail
    ELSE Ok([i \in 1..(h.v \div w) |-> BE(b, h.p + (i - 1) * w, w)], h.p + h.v)

\* optional<T>: presence octet 0 / 1 (anything else is an error), then T
OptionalU8(b, p) ==
    LET f == U8(b, p) IN
    IF ~f.ok THEN Fail
    ELSE IF f.v = 0 THEN Ok(<<>>, f.p)
    ELSE IF f.v = 1 THEN (LET x == U8(b, f.p) IN IF x.ok THEN Ok(<<x.v>>, x.p) ELSE Fail)
    ELSE Fail

\* encoder of the length header (used to state shortest-form and round-trip laws)
EncVarInt(n) ==
    IF n < 64 THEN <<n>>
    ELSE IF n < 16384 THEN <<64 + n \div 256, n % 256>>
    ELSE <<128 + (n \div 16777216), (n \div 65536) % 256, (n \div 256) % 256, n % 256>>
=============================================================================
