SPECIFICATION Spec
INVARIANT RowOK
CHECK_DEADLOCK FALSE
