SPECIFICATION SimSpec
CONSTANTS
  Parties = {"p1", "p2", "p3", "p4", "p5"}
  Creator = "p1"
  MaxCommits = 40
  MaxProps = 40
  MaxKps = 40
  MaxEpoch = 30
  PathRequiredChoices = {FALSE, TRUE}
  EncChoices = {FALSE, TRUE}
  ByValueMax = 2
  AllowConflicts = FALSE
  Features = {"observer", "apps", "gce", "badkp", "custom", "extcommit", "extsender", "newmember", "psk", "reinit"}
  Window = 1024
  Retention = 3
  BurstSizes = {1, 2}
  PskIds = {"k1"}
  PskValues = {"none", "a"}
  JitterChoices = {99999, 0, 1, 2, 1000}
  Deviations = {"F12", "F14", "F24"}
  MaxApps = 30
  MaxSucc = 6
  CapX = {}
  CapY = {}
  Depth = 60
  BootSize = 0
  WProgress = 60
  WPropose = 30
  WCommit = 35
  WApp = 10
  LateBias = 3
  WStore = 0
INVARIANT EmitAtDepth
CHECK_DEADLOCK FALSE
