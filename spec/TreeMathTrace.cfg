SPECIFICATION Spec
INVARIANT RowOK
POSTCONDITION AllConsumed
CHECK_DEADLOCK FALSE
