---------------------------- MODULE RatchetTree ----------------------------
(***************************************************************************)
(* The public ratchet tree of RFC 9420 (sections 4, 7) as an abstract      *)
(* value: a *trimmed* sequence of nodes in array order (node index x is    *)
(* element x+1).  A node is                                                *)
(*    Blank                           [t |-> "B"]                          *)
(*    leaf    [t |-> "L", k, who, cv, src]   k   = HPKE key id             *)
(*                                           who = member (identity)       *)
(*                                           cv  = credential/signature-   *)
(*                                                 key version             *)
(*                                           src = "kp" | "upd" | "commit" *)
(*    parent  [t |-> "P", k, um]             um  = sorted seq of unmerged  *)
(*                                                 leaf indices            *)
(* Operations follow mls-rs/src/tree_kem/{mod,node}.rs one to one          *)
(* (batch_edit, add_leaf, update_unmerged, blank_direct_path, trim,        *)
(* get_resolution_index, filtered) so that the expected trees TLC prints   *)
(* are comparable node by node with Group::export_tree().                  *)
(***************************************************************************)
EXTENDS TreeMath, Naturals, Sequences, FiniteSets

Blank == [t |-> "B"]
IsBlank(nd) == nd.t = "B"
IsLeafRec(nd) == nd.t = "L"
IsParentRec(nd) == nd.t = "P"

MkLeaf(k, who, cv, src) == [t |-> "L", k |-> k, who |-> who, cv |-> cv, src |-> src]
MkParent(k, um) == [t |-> "P", k |-> k, um |-> um]

\* number of leaf slots of the (power of two) tree a trimmed array stands for
LeafCount(tree) == NextPow2((Len(tree) \div 2) + 1)
Width(tree) == NodeWidth(LeafCount(tree))

Node(tree, x) == IF x + 1 <= Len(tree) THEN tree[x + 1] ELSE Blank

RECURSIVE Trim(_)
Trim(tree) == IF tree # <<>> /\ IsBlank(tree[Len(tree)]) THEN Trim(SubSeq(tree, 1, Len(tree) - 1)) ELSE tree

Pad(tree, len) == tree \o [i \in 1..(IF len > Len(tree) THEN len - Len(tree) ELSE 0) |-> Blank]

\* write node x (extending the array with blanks as needed); not trimmed
SetNode(tree, x, nd) == [Pad(tree, x + 1) EXCEPT ![x + 1] = nd]

LeafSlots(tree) == 0..((Len(tree) + 1) \div 2 - 1)       \* leaf indices present in the array
OccupiedLeaves(tree) == {l \in LeafSlots(tree) : ~IsBlank(Node(tree, 2 * l))}
Members(tree) == {Node(tree, 2 * l).who : l \in OccupiedLeaves(tree)}
LeafOf(tree, who) == CHOOSE l \in OccupiedLeaves(tree) : Node(tree, 2 * l).who = who

\* --- resolution (RFC 4.1.1), in the order of get_resolution_index ---
SeqMap(f(_), s) == [i \in 1..Len(s) |-> f(s[i])]

RECURSIVE ResolutionN(_, _, _)
ResolutionN(tree, x, n) ==
    LET nd == Node(tree, x) IN
    IF ~IsBlank(nd)
    THEN <<x>> \o (IF IsParentRec(nd) THEN [i \in 1..Len(nd.um) |-> 2 * nd.um[i]] ELSE <<>>)
    ELSE IF IsLeafNode(x) THEN <<>>
    ELSE ResolutionN(tree, Left(x, n), n) \o ResolutionN(tree, Right(x, n), n)

Resolution(tree, x) == ResolutionN(tree, x, LeafCount(tree))

SeqToSet(s) == {s[i] : i \in 1..Len(s)}
FilterSeq(s, P(_)) == SelectSeq(s, P)

IndexOf(s, v) == IF \E i \in 1..Len(s) : s[i] = v THEN CHOOSE i \in 1..Len(s) : s[i] = v /\ \A j \in 1..(i-1) : s[j] # v ELSE 0

\* direct path / copath of leaf l in the current tree (node indices)
DirectPathOf(tree, l) == DirectPath(2 * l, LeafCount(tree))
CopathOf(tree, l) == Copath(2 * l, LeafCount(tree))

\* positions i of the direct path that survive filtering (RFC 4.1.2): copath child has a non-empty resolution
FilteredPositions(tree, l) ==
    LET cp == CopathOf(tree, l) IN {i \in 1..Len(cp) : Resolution(tree, cp[i]) # <<>>}

FilteredDirectPath(tree, l) ==
    LET dp == DirectPathOf(tree, l)  fp == FilteredPositions(tree, l) IN
    FilterSeq(dp, LAMBDA x : IndexOf(dp, x) \in fp)

\* --- edits ---
BlankDirectPath(tree, l) ==
    LET dp == DirectPathOf(tree, l) IN
    [i \in 1..Len(tree) |-> IF \E j \in 1..Len(dp) : dp[j] = i - 1 THEN Blank ELSE tree[i]]

RemoveLeaf(tree, l) == BlankDirectPath(SetNode(tree, 2 * l, Blank), l)

UpdateLeaf(tree, l, leafRec) == BlankDirectPath(SetNode(tree, 2 * l, leafRec), l)

\* leftmost blank leaf at or after leaf index start, else the first slot right of the array
NextEmptyLeaf(tree, start) ==
    LET cands == {l \in LeafSlots(tree) : l >= start /\ IsBlank(Node(tree, 2 * l))} IN
    IF cands # {} THEN CHOOSE l \in cands : \A m \in cands : l <= m
    ELSE (Len(tree) + 1) \div 2

InsertSorted(s, v) ==
    LET before == FilterSeq(s, LAMBDA e : e < v)
        after == FilterSeq(s, LAMBDA e : e > v)
    IN before \o <<v>> \o after

\* insert the leaf, then record it as unmerged at every non-blank ancestor (update_unmerged)
AddLeafAt(tree, l, leafRec) ==
    LET t1 == SetNode(tree, 2 * l, leafRec)
        dp == DirectPathOf(t1, l)
    IN [i \in 1..Len(t1) |->
          IF (\E j \in 1..Len(dp) : dp[j] = i - 1) /\ IsParentRec(t1[i])
          THEN [t1[i] EXCEPT !.um = InsertSorted(t1[i].um, l)]
          ELSE t1[i]]

\* install an update path: committer leaf replaced, filtered path nodes get fresh keys and empty um
\* keys: function from node index -> key id for the filtered direct path nodes
ApplyPath(tree, l, leafRec, keys) ==
    LET t1 == Pad(SetNode(tree, 2 * l, leafRec), 0)
        maxx == IF DOMAIN keys = {} THEN 0 ELSE CHOOSE x \in DOMAIN keys : \A y \in DOMAIN keys : x >= y
        t2 == Pad(t1, maxx + 1)
    IN [i \in 1..Len(t2) |-> IF (i - 1) \in DOMAIN keys THEN MkParent(keys[i - 1], <<>>) ELSE t2[i]]

\* --- structural validity of a tree (RFC 7.9 / 12.4.3.1, the parts expressible without hashes) ---
NoTrailingBlank(tree) == tree = <<>> \/ ~IsBlank(tree[Len(tree)])

ShapeOK(tree) ==
    \A x \in 0..(Len(tree) - 1) :
        LET nd == Node(tree, x) IN
        /\ (IsLeafNode(x) => IsBlank(nd) \/ IsLeafRec(nd))
        /\ (~IsLeafNode(x) => IsBlank(nd) \/ IsParentRec(nd))

\* every unmerged leaf of a parent is a non-blank leaf below it, sorted, and listed at every
\* non-blank node between it and that parent (RFC 7.9.2 unmerged-leaf consistency)
UnmergedOK(tree) ==
    LET n == LeafCount(tree) IN
    \A x \in 0..(Len(tree) - 1) :
        LET nd == Node(tree, x) IN
        IsParentRec(nd) =>
            /\ \A i \in 1..Len(nd.um) :
                  /\ nd.um[i] \in LeavesUnder(x, n)
                  /\ ~IsBlank(Node(tree, 2 * nd.um[i]))
                  /\ (i > 1 => nd.um[i - 1] < nd.um[i])
                  /\ \A y \in SeqToSet(DirectPath(2 * nd.um[i], n)) :
                        (Level(y, n) < Level(x, n) /\ IsParentRec(Node(tree, y))) =>
                            nd.um[i] \in SeqToSet(Node(tree, y).um)

UniqueKeysAndMembers(tree) ==
    /\ \A x, y \in 0..(Len(tree) - 1) :
          (x # y /\ ~IsBlank(Node(tree, x)) /\ ~IsBlank(Node(tree, y))) => Node(tree, x).k # Node(tree, y).k
    /\ \A l, m \in OccupiedLeaves(tree) : l # m => Node(tree, 2 * l).who # Node(tree, 2 * m).who

StructurallyValid(tree) ==
    /\ NoTrailingBlank(tree) /\ ShapeOK(tree) /\ UnmergedOK(tree) /\ UniqueKeysAndMembers(tree)
=============================================================================
