INIT Init
NEXT Next
CONSTANT MaxLog = 6
