SPECIFICATION Spec
CONSTANTS
  Parties = {"p1", "p2", "p3"}
  Creator = "p1"
  MaxCommits = 3
  MaxProps = 1
  MaxKps = 2
  MaxEpoch = 3
  PathRequiredChoices = {FALSE}
  EncChoices = {FALSE}
  ByValueMax = 1
  AllowConflicts = FALSE
  Depth = 1000
  WProgress = 70
VIEW view
INVARIANT TypeOK
INVARIANT Agreement
INVARIANT EpochIsChainLength
INVARIANT TreesValid
INVARIANT PrivMatchesPub
INVARIANT RecipientsEntitled
INVARIANT NoDecapFailure
INVARIANT PendingOnCurrentEpoch
CHECK_DEADLOCK FALSE
