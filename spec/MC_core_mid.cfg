SPECIFICATION Spec
CONSTANTS
  Parties = {"p1", "p2", "p3"}
  Creator = "p1"
  MaxCommits = 3
  MaxProps = 1
  MaxKps = 2
  MaxEpoch = 3
  PathRequiredChoices = {FALSE}
  EncChoices = {FALSE}
  ByValueMax = 1
  AllowConflicts = FALSE
  Features = {}
  Window = 2
  Retention = 2
  BurstSizes = {1, 2}
  PskIds = {}
  PskValues = {"none"}
  JitterChoices = {99999}
  Deviations = {"F12", "F14", "F24"}
  MaxApps = 0
  MaxSucc = 6
  CapX = {}
  CapY = {}
  Depth = 1000
  BootSize = 0
  WProgress = 60
  WPropose = 30
  WCommit = 35
  WApp = 15
  LateBias = 3
  WStore = 10
VIEW view
INVARIANT TypeOK
INVARIANT Agreement
INVARIANT EpochIsChainLength
INVARIANT TreesValid
INVARIANT PrivMatchesPub
INVARIANT RecipientsEntitled
INVARIANT NoDecapFailure
INVARIANT PendingOnCurrentEpoch
INVARIANT PendingAppliedOnItsBase
INVARIANT ProvidersAgree
INVARIANT RetentionExact
INVARIANT NoGenerationReuse
INVARIANT AtMostOnce
PROPERTY StepsByOne
CHECK_DEADLOCK FALSE
