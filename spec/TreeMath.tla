------------------------------ MODULE TreeMath ------------------------------
(***************************************************************************)
(* RFC 9420 Appendix C: the array representation of a complete, left-      *)
(* balanced binary tree with n = 2^k leaves.  Leaf i sits at node index    *)
(* 2*i; the subtree over the leaf range [lo, lo+s) (s a power of two) has  *)
(* its root at node index 2*lo + s - 1, its left child is the subtree over *)
(* [lo, lo+s/2) and its right child the subtree over [lo+s/2, lo+s).       *)
(*                                                                         *)
(* Everything below is derived from that *structural* definition by        *)
(* recursive descent from the root.  No bit tricks: this is the reference  *)
(* the implementation's u32 arithmetic (mls-rs/src/tree_kem/math.rs) is    *)
(* compared against, and the vocabulary every other module uses.           *)
(***************************************************************************)
EXTENDS Naturals, Sequences, FiniteSets

RECURSIVE Log2(_)
Log2(s) == IF s <= 1 THEN 0 ELSE 1 + Log2(s \div 2)

RECURSIVE Pow2(_)
Pow2(k) == IF k = 0 THEN 1 ELSE 2 * Pow2(k - 1)

IsPow2(n) == n >= 1 /\ Pow2(Log2(n)) = n

\* smallest power of two >= n (n >= 1)
RECURSIVE NextPow2From(_, _)
NextPow2From(n, p) == IF p >= n THEN p ELSE NextPow2From(n, 2 * p)
NextPow2(n) == NextPow2From(n, 1)

NodeWidth(n) == IF n = 0 THEN 0 ELSE 2 * (n - 1) + 1
RootOfRange(lo, s) == 2 * lo + s - 1
Root(n) == RootOfRange(0, n)
InTree(x, n) == x < NodeWidth(n)
LeafNode(i) == 2 * i
IsLeafNode(x) == x % 2 = 0

(* Locate node x in the tree over [lo, lo+s): returns the leaf range it    *)
(* spans, its parent (par; -1 is encoded as the node itself for the root)  *)
(* and the chain of proper ancestors from the root down.                   *)
RECURSIVE Locate(_, _, _, _)
Locate(x, lo, s, anc) ==
    LET r == RootOfRange(lo, s) IN
    IF x = r THEN [lo |-> lo, s |-> s, anc |-> anc]
    ELSE IF x < r THEN Locate(x, lo, s \div 2, Append(anc, r))
    ELSE Locate(x, lo + s \div 2, s \div 2, Append(anc, r))

Loc(x, n) == Locate(x, 0, n, <<>>)

Level(x, n) == Log2(Loc(x, n).s)
IsRoot(x, n) == x = Root(n)

\* children exist only for non-leaves
Left(x, n)  == LET l == Loc(x, n) IN RootOfRange(l.lo, l.s \div 2)
Right(x, n) == LET l == Loc(x, n) IN RootOfRange(l.lo + l.s \div 2, l.s \div 2)

Parent(x, n) == LET a == Loc(x, n).anc IN a[Len(a)]

Sibling(x, n) ==
    LET p == Parent(x, n) IN IF Left(p, n) = x THEN Right(p, n) ELSE Left(p, n)

Reverse(s) == [i \in 1..Len(s) |-> s[Len(s) + 1 - i]]

\* proper ancestors, nearest first, root last
DirectPath(x, n) == Reverse(Loc(x, n).anc)

\* for each node on <<x>> \o DirectPath minus the root, its sibling
Copath(x, n) ==
    LET dp == DirectPath(x, n)
        chain == <<x>> \o dp
    IN [i \in 1..Len(dp) |-> Sibling(chain[i], n)]

\* half-open leaf range below x
SubtreeLeaves(x, n) == LET l == Loc(x, n) IN <<l.lo, l.lo + l.s>>
LeavesUnder(x, n) == LET l == Loc(x, n) IN l.lo .. (l.lo + l.s - 1)

\* lowest common ancestor of two leaves (leaf indices a, b), and its level
RECURSIVE LcaFrom(_, _, _, _)
LcaFrom(a, b, lo, s) ==
    IF s = 1 THEN RootOfRange(lo, s)
    ELSE LET h == s \div 2 IN
         IF a < lo + h /\ b < lo + h THEN LcaFrom(a, b, lo, h)
         ELSE IF a >= lo + h /\ b >= lo + h THEN LcaFrom(a, b, lo + h, h)
         ELSE RootOfRange(lo, s)

CommonAncestor(a, b, n) == LcaFrom(a, b, 0, n)
LcaLevel(a, b, n) == Level(CommonAncestor(a, b, n), n)

\* breadth-first order from the root, level by level, left to right
RECURSIVE BfsLevel(_, _, _)
BfsLevel(lo, s, w) ==   \* roots of the subtrees of width w inside [lo, lo+s)
    IF s = w THEN <<RootOfRange(lo, s)>>
    ELSE BfsLevel(lo, s \div 2, w) \o BfsLevel(lo + s \div 2, s \div 2, w)

RECURSIVE BfsFrom(_, _)
BfsFrom(n, w) == IF w = 0 THEN <<>> ELSE BfsLevel(0, n, w) \o BfsFrom(n, w \div 2)
Bfs(n) == BfsFrom(n, n)

=============================================================================
