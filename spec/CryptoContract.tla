-------------------------- MODULE CryptoContract --------------------------
(***************************************************************************)
(* C14, first half: what "the shipped crypto providers are                 *)
(* interchangeable" means for a table of recorded results.  One row per    *)
(* (cipher suite, operation, input); a row holds the result of every       *)
(* provider that supports the suite (deterministic operations) or of every *)
(* ordered pair producer > checker (signatures, HPKE in base and PSK mode, *)
(* HPKE contexts).  kind = "det": all providers return the same status and *)
(* the same bytes; "valid": every provider / pair succeeds (and recovers   *)
(* the plaintext); "invalid" (wrong tag, wrong length, malformed key,      *)
(* other info / PSK): every provider / pair rejects.                       *)
(* TLC evaluates the contract on the table recorded by the harness         *)
(* (`verif-harness cryptodiff`) and prints the rows that break it.         *)
(***************************************************************************)
EXTENDS Integers, Sequences, FiniteSets, TLC, Json, IOUtils

Rows == ndJsonDeserialize(IOEnv.CRYPTO_TABLE)

Results(r) == {<<r.results[i].status, r.results[i].out>> : i \in 1..Len(r.results)}
Agree(r) == Cardinality(Results(r)) = 1
Expected(r) ==
    CASE r.kind = "det" -> TRUE
      [] r.kind = "valid" -> \A i \in 1..Len(r.results) : r.results[i].status = "ok" /\ (r.op = "open" \/ r.results[i].out = "")
      [] r.kind = "invalid" -> \A i \in 1..Len(r.results) : r.results[i].status = "err"
RowOK(r) == Agree(r) /\ Expected(r) /\ Len(r.results) >= 2

Ops == {"hash", "mac", "extract", "expand", "seal", "open", "kem_derive", "pk_validate", "hpke_seal_to",
        "sign_verify", "verify_edge", "sig_derive_public", "hpke_base", "hpke_psk", "hpke_setup"}
Suites == {Rows[i].suite : i \in 1..Len(Rows)}
\* vacuity: every operation was recorded for every common suite, with valid and invalid inputs where that applies
Covered ==
    /\ Cardinality(Suites) >= 4
    /\ \A s \in Suites : \A op \in Ops : \E i \in 1..Len(Rows) : Rows[i].suite = s /\ Rows[i].op = op
    /\ \A s \in Suites : \A op \in {"open", "sign_verify", "hpke_base", "hpke_psk", "pk_validate"} :
          /\ \E i \in 1..Len(Rows) : Rows[i].suite = s /\ Rows[i].op = op /\ Rows[i].kind = "valid"
          /\ \E i \in 1..Len(Rows) : Rows[i].suite = s /\ Rows[i].op = op /\ Rows[i].kind = "invalid"

Bad == {i \in 1..Len(Rows) : ~RowOK(Rows[i])}

VARIABLE done
Init == done = FALSE
Next == /\ ~done /\ done' = TRUE
        /\ PrintT(<<"ROWS", Len(Rows), "COVERED", Covered>>)
        /\ \A i \in Bad : PrintT(<<"BADROW", ToJson([suite |-> Rows[i].suite, op |-> Rows[i].op, input |-> Rows[i].input, kind |-> Rows[i].kind, results |-> Rows[i].results])>>)
Spec == Init /\ [][Next]_done
=============================================================================
