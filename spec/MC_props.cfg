INIT PInit
NEXT PNext
CONSTANTS
  Parties = {"p1", "p2", "p3", "p4"}
  Creator = "p1"
  MaxCommits = 2
  MaxProps = 1
  MaxKps = 2
  MaxEpoch = 2
  PathRequiredChoices = {FALSE}
  EncChoices = {FALSE}
  ByValueMax = 1
  AllowConflicts = FALSE
  Features = {"psk", "gce", "reinit", "badkp"}
  Retention = 2
  Window = 2
  BurstSizes = {1, 2}
  PskIds = {"k1", "k2"}
  PskValues = {"none", "a"}
  JitterChoices = {99999}
  Deviations = {"F12", "F14", "F24"}
  MaxApps = 0
  MaxSucc = 6
  CapX = {}
  CapY = {}
  MaxLen = 3
INVARIANT Theorems
CHECK_DEADLOCK FALSE
