SPECIFICATION SimSpec
CONSTANTS
  Parties = {"p1", "p2", "p3", "p4", "p5", "p6", "p7"}
  Creator = "p1"
  MaxCommits = 40
  MaxProps = 40
  MaxKps = 40
  MaxEpoch = 30
  PathRequiredChoices = {FALSE, TRUE}
  EncChoices = {FALSE, TRUE}
  ByValueMax = 2
  AllowConflicts = FALSE
  Features = {"custom", "newid"}
  Window = 1024
  Retention = 2
  BurstSizes = {1, 2}
  PskIds = {}
  PskValues = {"none"}
  JitterChoices = {99999}
  Deviations = {"F12", "F14", "F24"}
  MaxApps = 0
  MaxSucc = 6
  CapX = {}
  CapY = {}
  Depth = 70
  BootSize = 0
  WProgress = 62
  WPropose = 30
  WCommit = 35
  WApp = 15
  LateBias = 3
  WStore = 10
INVARIANT EmitAtDepth
CHECK_DEADLOCK FALSE
