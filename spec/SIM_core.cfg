SPECIFICATION SimSpec
CONSTANTS
  Parties = {"p1", "p2", "p3", "p4", "p5"}
  Creator = "p1"
  MaxCommits = 40
  MaxProps = 40
  MaxKps = 40
  MaxEpoch = 30
  PathRequiredChoices = {FALSE, TRUE}
  EncChoices = {FALSE, TRUE}
  ByValueMax = 2
  AllowConflicts = FALSE
  Depth = 40
  WProgress = 70
INVARIANT EmitAtDepth
INVARIANT Agreement
INVARIANT EpochIsChainLength
INVARIANT TreesValid
INVARIANT PrivMatchesPub
INVARIANT RecipientsEntitled
INVARIANT NoDecapFailure
INVARIANT PendingOnCurrentEpoch
CHECK_DEADLOCK FALSE
