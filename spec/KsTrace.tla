------------------------------ MODULE KsTrace ------------------------------
(***************************************************************************)
(* Trace validation for C13.  Each row is a claim recorded from the real   *)
(* library: an API-visible value (epoch authenticator, exported secret,    *)
(* message key and nonce actually passed to aead_seal, confirmed           *)
(* transcript hash) together with its provenance tree, i.e. the recorded   *)
(* primitive calls that produced it.  Every claim must match the RFC 9420  *)
(* derivation graph of KeySchedule.tla: labels, contexts, length fields,   *)
(* salt / ikm roles, PSK indices, tree positions, generations.             *)
(***************************************************************************)
EXTENDS Json, IOUtils, TLC, Integers, Sequences

Rows == ndJsonDeserialize(IOEnv.TRACE)

VARIABLES l, meta

KS(m) == INSTANCE KeySchedule WITH Nh <- m.nh, Nk <- m.nk, Nn <- m.nn, Zero <- m.zero, Empty <- m.empty

ClaimOK(r, m) ==
    CASE r.k = "meta" -> TRUE
      [] r.k = "auth" -> KS(m)!EpochDerived(r.prov, "authentication", r.ctx, r.first)
      [] r.k = "export" -> KS(m)!Exported(r.prov, r.label, r.hctx, r.len, r.ctx, r.epoch = 0)
      [] r.k = "msgkey" -> /\ KS(m)!MessageKey(r.key, r.gen, "application", r.leaf, r.leaves, r.ctx, FALSE)
                           /\ KS(m)!MessageNonce(r.nonceProv, r.gen, "application", r.leaf, r.leaves, r.ctx, FALSE)
                           /\ r.nonceProv.prk.id = r.key.prk.id        \* key and nonce of one generation share the ratchet secret
      [] r.k = "pskorder" -> KS(m)!PskOrder(r.prov, r.psks)
      [] r.k = "cth" -> KS(m)!ConfirmedHash(r.prov, r.epoch)
      [] r.k = "treehash" -> TRUE
      [] r.k = "call-mac" -> KS(m)!MacKey(r.key)
      [] r.k = "call-kem" -> KS(m)!KemIkm(r.ikm)
      [] r.k = "call-seal" -> KS(m)!AeadKey(r.key, m.nk, "key") /\ (r.nonce.op \in {"leaf", "none"} \/ KS(m)!AeadKey(r.nonce, m.nn, "nonce"))
      [] OTHER -> FALSE

RowOK == l <= Len(Rows) => ClaimOK(Rows[l], IF Rows[l].k = "meta" THEN Rows[l] ELSE meta)

Init == l = 1 /\ meta = [nh |-> 0, nk |-> 0, nn |-> 0, zero |-> 0, empty |-> 0]
Next == /\ l <= Len(Rows)
        /\ l' = l + 1
        /\ meta' = IF Rows[l].k = "meta" THEN Rows[l] ELSE meta
Spec == Init /\ [][Next]_<<l, meta>>
=============================================================================
