SPECIFICATION SimSpec
CONSTANTS
  Parties = {"p1", "p2", "p3"}
  Creator = "p1"
  MaxCommits = 40
  MaxProps = 40
  MaxKps = 40
  MaxEpoch = 30
  PathRequiredChoices = {FALSE, TRUE}
  EncChoices = {FALSE, TRUE}
  ByValueMax = 2
  AllowConflicts = FALSE
  Features = {"apps", "storage"}
  Window = 1024
  Retention = 3
  BurstSizes = {1, 2}
  PskIds = {}
  PskValues = {"none"}
  JitterChoices = {99999}
  Deviations = {"F12", "F14", "F24"}
  MaxApps = 40
  MaxSucc = 6
  CapX = {}
  CapY = {}
  Depth = 80
  BootSize = 3
  WProgress = 50
  WPropose = 5
  WCommit = 20
  WApp = 55
  LateBias = 6
  WStore = 20
INVARIANT EmitAtDepth
CHECK_DEADLOCK FALSE
