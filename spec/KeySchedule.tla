---------------------------- MODULE KeySchedule ----------------------------
(***************************************************************************)
(* The derivation graph of RFC 9420 sections 8 (key schedule, exporter,    *)
(* PSK chain, transcript hashes) and 9 (secret tree, message ratchets),    *)
(* written as predicates over *provenance trees*: a tree node says which   *)
(* primitive call produced a byte string and from which inputs             *)
(*    [op |-> "extract", id, salt, ikm]                                    *)
(*    [op |-> "expand",  id, prk, label, ctx, ctxLen, lenField, len,       *)
(*                        ctxStr, ctxU32, ctxIdx, ctxCnt]                  *)
(*    [op |-> "hash", id, len, pre, suf, sufMac]  [op |-> "mac", id, key, data] *)
(*    [op |-> "leaf" | "cut", id]        no recorded producer / depth cut  *)
(* id's are interned byte strings (equal id = equal bytes).                *)
(*                                                                         *)
(* ExpandWithLabel(secret, label, context, len) is recorded as an expand   *)
(* node whose info field decoded to KDFLabel{ uint16 len; "MLS 1.0 "+label;*)
(* context }: label, lenField and ctx below are those decoded fields.      *)
(***************************************************************************)
EXTENDS TreeMath, Naturals, Sequences

CONSTANTS Nh, Nk, Nn, Zero, Empty   \* KDF / AEAD sizes of the suite, ids of Nh zero bytes and of the empty string

Unknown(f) == f.op \in {"leaf", "cut"}

\* ExpandWithLabel(prk, label, ctx, len): the length is bound twice (KDFLabel.length and the output length)
EWL(f, label, len) == f.op = "expand" /\ f.label = "MLS 1.0 " \o label /\ f.len = len /\ f.lenField = len
\* DeriveSecret(secret, label) = ExpandWithLabel(secret, label, "", Nh)
DS(f, label) == EWL(f, label, Nh) /\ f.ctx = Empty /\ f.ctxLen = 0

\* ---- 8.4 PSK chain: psk_secret_[i] = Extract(psk_input_[i-1], psk_secret_[i-1]), psk_secret_[0] = 0,
\*      psk_input_[i] = ExpandWithLabel(Extract(0, psk_[i]), "derived psk", PSKLabel{id, index i, count n}, Nh)
PskInput(f, idx, cnt) ==
    /\ EWL(f, "derived psk", Nh) /\ f.ctxIdx = idx /\ f.ctxCnt = cnt /\ f.ctxLen > 4
    /\ (f.prk.op = "cut" \/ (f.prk.op = "extract" /\ f.prk.salt.id = Zero))

RECURSIVE PskChain(_, _, _)
PskChain(f, n, cnt) ==          \* f = psk_secret_[n]
    IF n = 0 THEN f.id = Zero \/ f.op = "cut"
    ELSE f.op = "extract" /\ (f.salt.op = "cut" \/ PskInput(f.salt, n - 1, cnt)) /\ PskChain(f.ikm, n - 1, cnt)

RECURSIVE PskLen(_)
PskLen(f) == IF f.op = "extract" /\ f.salt.op = "expand" THEN 1 + PskLen(f.ikm) ELSE 0
\* ("cut": the provenance tree was truncated at its depth limit below this node)
PskSecret(f) == f.id = Zero \/ f.op = "cut" \/ PskChain(f, PskLen(f), PskLen(f))

\* the PreSharedKeyIDs (contexts of the psk inputs without index and count) along the chain, first PSK first
RECURSIVE PskIds(_)
PskIds(f) == IF f.op = "extract" /\ f.salt.op = "expand" THEN Append(PskIds(f.ikm), f.salt.ctxHead) ELSE <<>>
\* f = an epoch-derived secret (DeriveSecret(epoch_secret, .)): its PSK chain lists exactly `ids`, in that order
PskOrder(f, ids) ==
    \/ f.op # "expand" \/ f.prk.op # "expand" \/ f.prk.prk.op # "extract"
    \/ LET ps == f.prk.prk.ikm IN ps.op = "cut" \/ PskIds(ps) = ids

\* ---- 8 key schedule
CommitSecret(f) == f.id = Zero \/ DS(f, "path") \/ Unknown(f)
\* (a receiver obtains the last path secret by HPKE: its DeriveSecret(., "path") is still recorded)

RECURSIVE EpochSecret(_, _, _)
InitSecret(f, d) ==
    \/ Unknown(f)                                   \* creation epoch (random), external init (HPKE export), or cut
    \/ (DS(f, "init") /\ (Unknown(f.prk) \/ (d > 0 /\ f.prk.op = "expand" /\ f.prk.label = "MLS 1.0 epoch")))
JoinerSecret(f, gc, d) ==
    \/ f.op = "leaf"                                \* a joiner receives it in the Welcome
    \/ f.op = "cut"
    \/ (EWL(f, "joiner", Nh) /\ f.ctx = gc
        /\ (Unknown(f.prk) \/ (f.prk.op = "extract" /\ InitSecret(f.prk.salt, d) /\ CommitSecret(f.prk.ikm))))
\* epoch_secret = ExpandWithLabel(Extract(joiner_secret, psk_secret), "epoch", GroupContext_[n], Nh)
EpochSecret(f, gc, d) ==
    /\ EWL(f, "epoch", Nh) /\ f.ctx = gc
    /\ f.prk.op = "extract" /\ JoinerSecret(f.prk.salt, gc, d) /\ PskSecret(f.prk.ikm)

\* a secret derived from the epoch secret: DeriveSecret(epoch_secret, label)
\* (first = the creation epoch, whose random epoch secret was drawn before recording started)
EpochDerived(f, label, gc, first) ==
    \/ (first /\ Unknown(f))
    \/ (DS(f, label) /\ (IF first THEN Unknown(f.prk) \/ EpochSecret(f.prk, gc, 1) ELSE EpochSecret(f.prk, gc, 1)))

\* ---- 8.5 exporter: ExpandWithLabel(DeriveSecret(exporter_secret, label), "exported", Hash(context), len)
Exported(f, label, hctx, len, gc, first) ==
    /\ EWL(f, "exported", len) /\ f.ctx = hctx
    /\ f.prk.op = "expand" /\ f.prk.label = "MLS 1.0 " \o label /\ f.prk.len = Nh /\ f.prk.lenField = Nh /\ f.prk.ctx = Empty
    /\ (IF first /\ Unknown(f.prk.prk) THEN TRUE ELSE EpochDerived(f.prk.prk, "exporter", gc, first))

\* ---- 9 secret tree and message ratchets
\* tree_node_[root] = encryption_secret; left/right = ExpandWithLabel(parent, "tree", "left" / "right", Nh)
RECURSIVE TreeNodeSecret(_, _, _, _, _)
TreeNodeSecret(f, x, n, gc, first) ==
    IF x = Root(n) THEN EpochDerived(f, "encryption", gc, first)
    ELSE /\ EWL(f, "tree", Nh)
         /\ f.ctxStr = (IF Left(Parent(x, n), n) = x THEN "left" ELSE "right")
         /\ TreeNodeSecret(f.prk, Parent(x, n), n, gc, first)

\* ratchet secret of generation j: secret_[0] = ExpandWithLabel(leaf secret, "application"|"handshake", "", Nh),
\* secret_[j+1] = DeriveTreeSecret(secret_[j], "secret", j, Nh) = ExpandWithLabel(secret_[j], "secret", uint32(j), Nh)
RECURSIVE RatchetSecret(_, _, _, _, _, _, _)
RatchetSecret(f, j, kind, leaf, n, gc, first) ==
    IF j = 0 THEN DS(f, kind) /\ TreeNodeSecret(f.prk, 2 * leaf, n, gc, first)
    ELSE EWL(f, "secret", Nh) /\ f.ctxU32 = j - 1 /\ f.ctxLen = 4 /\ RatchetSecret(f.prk, j - 1, kind, leaf, n, gc, first)

MessageKey(f, j, kind, leaf, n, gc, first) ==
    EWL(f, "key", Nk) /\ f.ctxU32 = j /\ f.ctxLen = 4 /\ RatchetSecret(f.prk, j, kind, leaf, n, gc, first)
MessageNonce(f, j, kind, leaf, n, gc, first) ==
    EWL(f, "nonce", Nn) /\ f.ctxU32 = j /\ f.ctxLen = 4 /\ RatchetSecret(f.prk, j, kind, leaf, n, gc, first)

\* ---- every key that reaches a MAC, an AEAD or the KEM key derivation has a legal origin (claims made for *calls*
\* of the provider rather than for API values: the group context of the call is not known, the shape is)
EpochSecretAny(f) == Unknown(f) \/ (EWL(f, "epoch", Nh) /\ (Unknown(f.prk) \/ f.prk.op = "extract"))
FromEpoch(f, label) == DS(f, label) /\ EpochSecretAny(f.prk)
\* confirmation tag and membership tag are the only MACs of the protocol
MacKey(f) == Unknown(f) \/ FromEpoch(f, "confirm") \/ FromEpoch(f, "membership")
\* TreeKEM: path_secret_[k+1] = DeriveSecret(path_secret_[k], "path"); node key pair = DeriveKeyPair(
\* ExpandWithLabel(path_secret, "node", "", Nh)); the external key pair comes from DeriveSecret(epoch, "external")
RECURSIVE PathSecretChain(_)
PathSecretChain(f) == Unknown(f) \/ (DS(f, "path") /\ PathSecretChain(f.prk))
KemIkm(f) == Unknown(f) \/ (DS(f, "node") /\ PathSecretChain(f.prk)) \/ FromEpoch(f, "external")
\* ratchet secrets without position information
RECURSIVE RatchetAny(_)
RatchetAny(f) ==
    \/ Unknown(f)
    \/ (EWL(f, "secret", Nh) /\ f.ctxLen = 4 /\ RatchetAny(f.prk))
    \/ ((DS(f, "application") \/ DS(f, "handshake")) /\ (Unknown(f.prk) \/ EWL(f.prk, "tree", Nh) \/ FromEpoch(f.prk, "encryption")))
\* welcome_secret = DeriveSecret(Extract(joiner_secret, psk_secret), "welcome")
WelcomeSecret(f) == DS(f, "welcome") /\ (Unknown(f.prk) \/ (f.prk.op = "extract" /\ PskSecret(f.prk.ikm)))
\* what may key an AEAD: a message key (context = generation), the sender-data key (context = ciphertext sample),
\* the welcome key (no context)
AeadKey(f, len, lab) ==
    \/ Unknown(f)
    \* (a secret of the creation epoch has no recorded producer: the group was created before recording started)
    \/ (EWL(f, lab, len) /\ f.ctxLen = 4 /\ RatchetAny(f.prk))
    \/ (EWL(f, lab, len) /\ f.ctxLen > 4 /\ (Unknown(f.prk) \/ FromEpoch(f.prk, "sender data")))
    \/ (EWL(f, lab, len) /\ f.ctx = Empty /\ f.ctxLen = 0 /\ (Unknown(f.prk) \/ WelcomeSecret(f.prk)))

\* ---- 8.2 transcript hashes: confirmed_[n] = Hash(interim_[n-1] || ConfirmedTranscriptHashInput),
\*      interim_[n] = Hash(confirmed_[n] || opaque confirmation_tag<V>), confirmation_tag = MAC(confirmation_key, confirmed_[n])
InterimHash(f) ==
    \/ Unknown(f)
    \/ (f.op = "hash" /\ f.sufMac.op = "mac" /\ f.sufMac.data = f.pre.id
        /\ (Unknown(f.sufMac.key) \/ (f.sufMac.key.op = "expand" /\ f.sufMac.key.label = "MLS 1.0 confirm")))
ConfirmedHash(f, epoch) ==
    IF epoch = 0 THEN TRUE
    ELSE f.op = "hash" /\ f.len > Nh /\ InterimHash(f.pre)
=============================================================================
