----------------------------- MODULE WireSchema -----------------------------
(***************************************************************************)
(* Schemas of the MLSMessage framing layer (RFC 9420 section 6) built from  *)
(* the Codec combinators.  The schema of every wire format is complete     *)
(* (every byte is accounted for), so the reference verdict "decodes and     *)
(* consumes all input" must equal MlsMessage::from_bytes'.                  *)
(***************************************************************************)
EXTENDS Codec

\* struct { ProtocolVersion version = mls10(1); WireFormat wire_format; select ... } MLSMessage
Header(b) ==
    LET v == U16(b, 1) IN
    IF ~v.ok THEN Fail ELSE LET w == U16(b, v.p) IN IF ~w.ok THEN Fail ELSE Ok(<<v.v, w.v>>, w.p)

\* struct { opaque group_id<V>; uint64 epoch; ContentType content_type; opaque authenticated_data<V>;
\*          opaque encrypted_sender_data<V>; opaque ciphertext<V>; } PrivateMessage
PrivateMessage(b, p) ==
    LET g == Opaque(b, p) IN IF ~g.ok THEN Fail ELSE
    LET e == U64(b, g.p) IN IF ~e.ok THEN Fail ELSE
    LET c == U8(b, e.p) IN IF ~c.ok \/ c.v \notin {1, 2, 3} THEN Fail ELSE
    LET a == Opaque(b, c.p) IN IF ~a.ok THEN Fail ELSE
    LET s == Opaque(b, a.p) IN IF ~s.ok THEN Fail ELSE
    LET x == Opaque(b, s.p) IN IF ~x.ok THEN Fail ELSE Ok(<<e.v, c.v>>, x.p)

\* struct { KeyPackageRef new_member<V>; HPKECiphertext { opaque kem_output<V>; opaque ciphertext<V>; } } EncryptedGroupSecrets
RECURSIVE Secrets(_, _, _)
Secrets(b, p, end) ==
    IF p = end THEN Ok(0, p)
    ELSE LET r == Opaque(b, p) IN IF ~r.ok \/ r.p > end THEN Fail ELSE
         LET k == Opaque(b, r.p) IN IF ~k.ok \/ k.p > end THEN Fail ELSE
         LET c == Opaque(b, k.p) IN IF ~c.ok \/ c.p > end THEN Fail ELSE Secrets(b, c.p, end)

\* struct { CipherSuite cipher_suite; EncryptedGroupSecrets secrets<V>; opaque encrypted_group_info<V>; } Welcome
Welcome(b, p) ==
    LET cs == U16(b, p) IN IF ~cs.ok THEN Fail ELSE
    LET h == VarInt(b, cs.p) IN IF ~h.ok \/ ~Avail(b, h.p, h.v) THEN Fail ELSE
    LET ss == Secrets(b, h.p, h.p + h.v) IN IF ~ss.ok THEN Fail ELSE
    LET gi == Opaque(b, h.p + h.v) IN IF ~gi.ok THEN Fail ELSE Ok(cs.v, gi.p)

-----------------------------------------------------------------------------
(* Bodies of the remaining wire formats.  A parser returns Ok(_, next position) or Fail; `In(r, end)` keeps   *)
(* a nested element inside the vector that contains it.                                                        *)
In(r, end) == r.ok /\ r.p <= end + 1

\* a vector<V> whose elements are parsed by the recursive operator Elem(b, p, end) until `end` is reached
VecHeader(b, p) == LET h == VarInt(b, p) IN IF ~h.ok \/ ~Avail(b, h.p, h.v) THEN Fail ELSE Ok(h.v, h.p)

\* Extension extensions<V>: { ExtensionType(2); opaque data<V> }; a type may occur only once (ExtensionList decoder)
RECURSIVE ExtItems(_, _, _, _)
ExtItems(b, p, end, seen) ==
    IF p = end + 1 THEN Ok(0, p)
    ELSE LET t == U16(b, p) IN IF ~In(t, end) \/ t.v \in seen THEN Fail ELSE
         LET d == Opaque(b, t.p) IN IF ~In(d, end) THEN Fail ELSE ExtItems(b, d.p, end, seen \cup {t.v})
Extensions(b, p) == LET h == VecHeader(b, p) IN IF ~h.ok THEN Fail ELSE ExtItems(b, h.p, h.p + h.v - 1, {})

\* Certificate certificates<V> (each opaque cert_data<V>)
RECURSIVE OpaqueItems(_, _, _)
OpaqueItems(b, p, end) ==
    IF p = end + 1 THEN Ok(0, p)
    ELSE LET d == Opaque(b, p) IN IF ~In(d, end) THEN Fail ELSE OpaqueItems(b, d.p, end)
OpaqueVec(b, p) == LET h == VecHeader(b, p) IN IF ~h.ok THEN Fail ELSE OpaqueItems(b, h.p, h.p + h.v - 1)

\* Credential: basic(1): opaque identity<V>; x509(2): Certificate chain<V>; any other type: opaque data<V>
Credential(b, p) ==
    LET t == U16(b, p) IN IF ~t.ok THEN Fail
    ELSE IF t.v = 2 THEN OpaqueVec(b, t.p) ELSE Opaque(b, t.p)

\* Capabilities: five vectors of 2-byte code points
Capabilities(b, p) ==
    LET v1 == VectorFixed(b, p, 2) IN IF ~v1.ok THEN Fail ELSE
    LET v2 == VectorFixed(b, v1.p, 2) IN IF ~v2.ok THEN Fail ELSE
    LET v3 == VectorFixed(b, v2.p, 2) IN IF ~v3.ok THEN Fail ELSE
    LET v4 == VectorFixed(b, v3.p, 2) IN IF ~v4.ok THEN Fail ELSE
    VectorFixed(b, v4.p, 2)

\* LeafNode { encryption_key<V>; signature_key<V>; Credential; Capabilities; source(1): key_package(1) Lifetime{8,8} /
\*            update(2) / commit(3) parent_hash<V>; extensions<V>; signature<V> }
LeafNode(b, p) ==
    LET ek == Opaque(b, p) IN IF ~ek.ok THEN Fail ELSE
    LET sk == Opaque(b, ek.p) IN IF ~sk.ok THEN Fail ELSE
    LET cr == Credential(b, sk.p) IN IF ~cr.ok THEN Fail ELSE
    LET ca == Capabilities(b, cr.p) IN IF ~ca.ok THEN Fail ELSE
    LET so == U8(b, ca.p) IN IF ~so.ok \/ so.v \notin {1, 2, 3} THEN Fail ELSE
    LET af == IF so.v = 1 THEN (IF Avail(b, so.p, 16) THEN Ok(0, so.p + 16) ELSE Fail)
              ELSE IF so.v = 3 THEN Opaque(b, so.p) ELSE Ok(0, so.p) IN IF ~af.ok THEN Fail ELSE
    LET ex == Extensions(b, af.p) IN IF ~ex.ok THEN Fail ELSE
    Opaque(b, ex.p)

\* KeyPackage { version(2); cipher_suite(2); init_key<V>; LeafNode; extensions<V>; signature<V> }
KeyPackage(b, p) ==
    LET v == U16(b, p) IN IF ~v.ok THEN Fail ELSE
    LET c == U16(b, v.p) IN IF ~c.ok THEN Fail ELSE
    LET ik == Opaque(b, c.p) IN IF ~ik.ok THEN Fail ELSE
    LET ln == LeafNode(b, ik.p) IN IF ~ln.ok THEN Fail ELSE
    LET ex == Extensions(b, ln.p) IN IF ~ex.ok THEN Fail ELSE
    Opaque(b, ex.p)

\* GroupContext { version(2); cipher_suite(2); group_id<V>; epoch(8); tree_hash<V>; confirmed_transcript_hash<V>; extensions<V> }
GroupContext(b, p) ==
    LET v == U16(b, p) IN IF ~v.ok THEN Fail ELSE
    LET c == U16(b, v.p) IN IF ~c.ok THEN Fail ELSE
    LET g == Opaque(b, c.p) IN IF ~g.ok THEN Fail ELSE
    LET e == U64(b, g.p) IN IF ~e.ok THEN Fail ELSE
    LET th == Opaque(b, e.p) IN IF ~th.ok THEN Fail ELSE
    LET ch == Opaque(b, th.p) IN IF ~ch.ok THEN Fail ELSE
    Extensions(b, ch.p)

\* a leaf index: uint32 on the wire; mls-rs accepts only values below 2^24 (named deviation from the RFC grammar,
\* which admits every uint32: trees of more than 2^24 leaves are not supported)
LeafIdx(b, p) == LET x == U32(b, p) IN IF ~x.ok \/ x.v[1] > 255 THEN Fail ELSE x

\* GroupInfo { GroupContext; extensions<V>; confirmation_tag<V>; signer(4); signature<V> }
GroupInfo(b, p) ==
    LET gc == GroupContext(b, p) IN IF ~gc.ok THEN Fail ELSE
    LET ex == Extensions(b, gc.p) IN IF ~ex.ok THEN Fail ELSE
    LET ct == Opaque(b, ex.p) IN IF ~ct.ok THEN Fail ELSE
    LET si == LeafIdx(b, ct.p) IN IF ~si.ok THEN Fail ELSE
    Opaque(b, si.p)

\* PreSharedKeyID { psktype(1): external(1) psk_id<V> / resumption(2) usage(1) in 1..3, group_id<V>, epoch(8); nonce<V> }
PskId(b, p) ==
    LET t == U8(b, p) IN IF ~t.ok \/ t.v \notin {1, 2} THEN Fail ELSE
    LET body == IF t.v = 1 THEN Opaque(b, t.p)
                ELSE (LET u == U8(b, t.p) IN IF ~u.ok \/ u.v \notin {1, 2, 3} THEN Fail ELSE
                      LET g == Opaque(b, u.p) IN IF ~g.ok THEN Fail ELSE U64(b, g.p))
    IN IF ~body.ok THEN Fail ELSE Opaque(b, body.p)

\* Proposal { type(2); select: add(1) KeyPackage; update(2) LeafNode; remove(3) uint32; psk(4) PreSharedKeyID;
\*            reinit(5) group_id<V>, version(2), cipher_suite(2), extensions<V>; external_init(6) kem_output<V>;
\*            group_context_extensions(7) extensions<V>; 0 is reserved; anything else: opaque data<V> (custom) }
Proposal(b, p) ==
    LET t == U16(b, p) IN IF ~t.ok THEN Fail
    ELSE IF t.v = 0 THEN Fail
    ELSE IF t.v = 1 THEN KeyPackage(b, t.p)
    ELSE IF t.v = 2 THEN LeafNode(b, t.p)
    ELSE IF t.v = 3 THEN LeafIdx(b, t.p)
    ELSE IF t.v = 4 THEN PskId(b, t.p)
    ELSE IF t.v = 5 THEN (LET g == Opaque(b, t.p) IN IF ~g.ok THEN Fail ELSE
                          LET v == U16(b, g.p) IN IF ~v.ok THEN Fail ELSE
                          LET c == U16(b, v.p) IN IF ~c.ok THEN Fail ELSE Extensions(b, c.p))
    ELSE IF t.v = 6 THEN Opaque(b, t.p)
    ELSE IF t.v = 7 THEN Extensions(b, t.p)
    ELSE Opaque(b, t.p)

\* ProposalOrRef proposals<V>: { type(1): proposal(1) Proposal / reference(2) opaque ref<V> }
RECURSIVE PorItems(_, _, _)
PorItems(b, p, end) ==
    IF p = end + 1 THEN Ok(0, p)
    ELSE LET t == U8(b, p) IN IF ~In(t, end) \/ t.v \notin {1, 2} THEN Fail ELSE
         LET x == IF t.v = 1 THEN Proposal(b, t.p) ELSE Opaque(b, t.p) IN IF ~In(x, end) THEN Fail ELSE PorItems(b, x.p, end)

\* UpdatePathNode nodes<V>: { encryption_key<V>; HPKECiphertext encrypted_path_secret<V> { kem_output<V>; ciphertext<V> } }
RECURSIVE CtItems(_, _, _)
CtItems(b, p, end) ==
    IF p = end + 1 THEN Ok(0, p)
    ELSE LET k == Opaque(b, p) IN IF ~In(k, end) THEN Fail ELSE
         LET c == Opaque(b, k.p) IN IF ~In(c, end) THEN Fail ELSE CtItems(b, c.p, end)
RECURSIVE PathNodes(_, _, _)
PathNodes(b, p, end) ==
    IF p = end + 1 THEN Ok(0, p)
    ELSE LET k == Opaque(b, p) IN IF ~In(k, end) THEN Fail ELSE
         LET h == VecHeader(b, k.p) IN IF ~h.ok \/ h.p + h.v - 1 > end THEN Fail ELSE
         LET cs == CtItems(b, h.p, h.p + h.v - 1) IN IF ~cs.ok THEN Fail ELSE PathNodes(b, cs.p, end)

\* Commit { ProposalOrRef proposals<V>; optional<UpdatePath { LeafNode; UpdatePathNode nodes<V> }> path }
Commit(b, p) ==
    LET h == VecHeader(b, p) IN IF ~h.ok THEN Fail ELSE
    LET ps == PorItems(b, h.p, h.p + h.v - 1) IN IF ~ps.ok THEN Fail ELSE
    LET f == U8(b, ps.p) IN IF ~f.ok \/ f.v \notin {0, 1} THEN Fail
    ELSE IF f.v = 0 THEN Ok(0, f.p)
    ELSE LET ln == LeafNode(b, f.p) IN IF ~ln.ok THEN Fail ELSE
         LET nh == VecHeader(b, ln.p) IN IF ~nh.ok THEN Fail ELSE PathNodes(b, nh.p, nh.p + nh.v - 1)

\* PublicMessage { FramedContent { group_id<V>; epoch(8); Sender { type(1): member(1) leaf(4) / external(2) index(4) /
\*   new_member_proposal(3) / new_member_commit(4) }; authenticated_data<V>; content_type(1): application(1) opaque<V> /
\*   proposal(2) Proposal / commit(3) Commit }; FramedContentAuthData { signature<V>; confirmation_tag<V> if commit };
\*   membership_tag<V> if the sender is a member }
PublicMessage(b, p) ==
    LET g == Opaque(b, p) IN IF ~g.ok THEN Fail ELSE
    LET e == U64(b, g.p) IN IF ~e.ok THEN Fail ELSE
    LET st == U8(b, e.p) IN IF ~st.ok \/ st.v \notin {1, 2, 3, 4} THEN Fail ELSE
    LET sx == IF st.v \in {1, 2} THEN U32(b, st.p) ELSE Ok(0, st.p) IN IF ~sx.ok THEN Fail ELSE
    LET ad == Opaque(b, sx.p) IN IF ~ad.ok THEN Fail ELSE
    LET ct == U8(b, ad.p) IN IF ~ct.ok \/ ct.v \notin {1, 2, 3} THEN Fail ELSE
    LET body == IF ct.v = 1 THEN Opaque(b, ct.p) ELSE IF ct.v = 2 THEN Proposal(b, ct.p) ELSE Commit(b, ct.p) IN IF ~body.ok THEN Fail ELSE
    LET sg == Opaque(b, body.p) IN IF ~sg.ok THEN Fail ELSE
    LET cf == IF ct.v = 3 THEN Opaque(b, sg.p) ELSE Ok(0, sg.p) IN IF ~cf.ok THEN Fail ELSE
    IF st.v = 1 THEN Opaque(b, cf.p) ELSE Ok(0, cf.p)

\* reference verdict for a complete MLSMessage: "accept" / "reject" / "unknown" (schema not complete here)
Verdict(b) ==
    LET h == Header(b) IN
    IF ~h.ok THEN "reject"
    \* (the version number is not interpreted by the decoder: it is checked when a message is processed)
    ELSE IF h.v[2] = 2 THEN (LET m == PrivateMessage(b, h.p) IN IF m.ok /\ m.p = Len(b) + 1 THEN "accept" ELSE "reject")
    ELSE IF h.v[2] = 3 THEN (LET m == Welcome(b, h.p) IN IF m.ok /\ m.p = Len(b) + 1 THEN "accept" ELSE "reject")
    ELSE IF h.v[2] = 1 THEN (LET m == PublicMessage(b, h.p) IN IF m.ok /\ m.p = Len(b) + 1 THEN "accept" ELSE "reject")
    ELSE IF h.v[2] = 4 THEN (LET m == GroupInfo(b, h.p) IN IF m.ok /\ m.p = Len(b) + 1 THEN "accept" ELSE "reject")
    ELSE IF h.v[2] = 5 THEN (LET m == KeyPackage(b, h.p) IN IF m.ok /\ m.p = Len(b) + 1 THEN "accept" ELSE "reject")
    ELSE "reject"
=============================================================================
