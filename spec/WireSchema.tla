----------------------------- MODULE WireSchema -----------------------------
(***************************************************************************)
(* Schemas of the MLSMessage framing layer (RFC 9420 section 6) built from  *)
(* the Codec combinators.  For PrivateMessage and Welcome the schema is     *)
(* complete (every byte is accounted for), so the reference verdict         *)
(* "decodes and consumes all input" must equal MlsMessage::from_bytes'.     *)
(* For the other wire formats only the common header is described.         *)
(***************************************************************************)
EXTENDS Codec

\* struct { ProtocolVersion version = mls10(1); WireFormat wire_format; select ... } MLSMessage
Header(b) ==
    LET v == U16(b, 1) IN
    IF ~v.ok THEN Fail ELSE LET w == U16(b, v.p) IN IF ~w.ok THEN Fail ELSE Ok(<<v.v, w.v>>, w.p)

\* struct { opaque group_id<V>; uint64 epoch; ContentType content_type; opaque authenticated_data<V>;
\*          opaque encrypted_sender_data<V>; opaque ciphertext<V>; } PrivateMessage
PrivateMessage(b, p) ==
    LET g == Opaque(b, p) IN IF ~g.ok THEN Fail ELSE
    LET e == U64(b, g.p) IN IF ~e.ok THEN Fail ELSE
    LET c == U8(b, e.p) IN IF ~c.ok \/ c.v \notin {1, 2, 3} THEN Fail ELSE
    LET a == Opaque(b, c.p) IN IF ~a.ok THEN Fail ELSE
    LET s == Opaque(b, a.p) IN IF ~s.ok THEN Fail ELSE
    LET x == Opaque(b, s.p) IN IF ~x.ok THEN Fail ELSE Ok(<<e.v, c.v>>, x.p)

\* struct { KeyPackageRef new_member<V>; HPKECiphertext { opaque kem_output<V>; opaque ciphertext<V>; } } EncryptedGroupSecrets
RECURSIVE Secrets(_, _, _)
Secrets(b, p, end) ==
    IF p = end THEN Ok(0, p)
    ELSE LET r == Opaque(b, p) IN IF ~r.ok \/ r.p > end THEN Fail ELSE
         LET k == Opaque(b, r.p) IN IF ~k.ok \/ k.p > end THEN Fail ELSE
         LET c == Opaque(b, k.p) IN IF ~c.ok \/ c.p > end THEN Fail ELSE Secrets(b, c.p, end)

\* struct { CipherSuite cipher_suite; EncryptedGroupSecrets secrets<V>; opaque encrypted_group_info<V>; } Welcome
Welcome(b, p) ==
    LET cs == U16(b, p) IN IF ~cs.ok THEN Fail ELSE
    LET h == VarInt(b, cs.p) IN IF ~h.ok \/ ~Avail(b, h.p, h.v) THEN Fail ELSE
    LET ss == Secrets(b, h.p, h.p + h.v) IN IF ~ss.ok THEN Fail ELSE
    LET gi == Opaque(b, h.p + h.v) IN IF ~gi.ok THEN Fail ELSE Ok(cs.v, gi.p)

\* reference verdict for a complete MLSMessage: "accept" / "reject" / "unknown" (schema not complete here)
Verdict(b) ==
    LET h == Header(b) IN
    IF ~h.ok THEN "reject"
    \* (the version number is not interpreted by the decoder: it is checked when a message is processed)
    ELSE IF h.v[2] = 2 THEN (LET m == PrivateMessage(b, h.p) IN IF m.ok /\ m.p = Len(b) + 1 THEN "accept" ELSE "reject")
    ELSE IF h.v[2] = 3 THEN (LET m == Welcome(b, h.p) IN IF m.ok /\ m.p = Len(b) + 1 THEN "accept" ELSE "reject")
    ELSE IF h.v[2] \in {1, 4, 5} THEN "unknown"
    ELSE "reject"
=============================================================================
