------------------------------ MODULE MC_core ------------------------------
EXTENDS MlsGroup

CONSTANT Depth      \* simulation: behaviours are printed when they reach this length

\* one JSON line per simulated behaviour (spec -> impl replay)
EmitAtDepth ==
    (TLCGet("level") = Depth) =>
        PrintT(<<"REPLAY", ToJson([cfg |-> [pathReq |-> opt.pathReq, enc |-> opt.enc, parties |-> Parties, creator |-> Creator],
                                   steps |-> hist])>>)

(***************************************************************************)
(* Simulation shaping.  SimNext is a sub-relation of Next (every SimNext   *)
(* step is a Next step with particular arguments): a category is drawn     *)
(* first (protocol progress vs. anything else) and arguments are drawn     *)
(* with RandomElement, so that random behaviours reach deep epochs and     *)
(* rich tree shapes while still containing stale deliveries, failing       *)
(* commits, cleared commits, races.  Used only with `tlc -simulate`.       *)
(***************************************************************************)
CONSTANTS WProgress

\* TLC caches constant-level expressions: make every random draw state-level
Z == 0 * Len(hist)
RParty == RandomElement({p \in Parties : Z = 0})

CurrentWinnerFor(q) ==
    {n \in 1..Len(commits) : IsWinner(n) /\ commits[n].baseKs = grp[q].ks /\ commits[n].baseEpoch = grp[q].epoch}

DsEnabled(n) ==
    /\ winner[commits[n].baseEpoch] = 0
    /\ IF commits[n].baseEpoch = 0 THEN TRUE ELSE winner[commits[n].baseEpoch - 1] = commits[n].baseKs
    /\ grp[commits[n].by].st = "member" /\ grp[commits[n].by].pend = n

ProgressEnabled ==
    \/ \E n \in 1..Len(commits) : DsEnabled(n)
    \/ \E p \in Parties : HasGroup(p) /\ grp[p].pend # 0 /\ IsWinner(grp[p].pend)
    \/ \E q \in Parties : HasGroup(q) /\ \E n \in CurrentWinnerFor(q) : commits[n].by # q
    \/ \E q \in Parties : ~HasGroup(q) /\ \E n \in 1..Len(commits) : IsWinner(n) /\
            \E i \in 1..Len(commits[n].added) : kps[commits[n].added[i][1]].owner = q /\ ~kps[commits[n].added[i][1]].used
    \/ \E q \in Parties : HasGroup(q) /\ \E j \in 1..Len(props) : props[j].ks = grp[q].ks /\ props[j].by # q /\ j \notin grp[q].cache

Progress ==
    \/ \E n \in 1..Len(commits) : DsEnabled(n) /\ DsChoose(n)
    \/ \E p \in Parties : HasGroup(p) /\ grp[p].pend # 0 /\ ApplyPending(p)
    \/ \E q \in Parties : HasGroup(q) /\ \E n \in CurrentWinnerFor(q) : commits[n].by # q /\ DeliverCommit(q, n)
    \/ \E q \in Parties : \E n \in 1..Len(commits) : JoinWelcome(q, n)
    \/ \E q \in Parties : HasGroup(q) /\ \E j \in 1..Len(props) : props[j].ks = grp[q].ks /\ DeliverProposal(q, j)

ValidByValue(g) ==
    {[kind |-> "add", ref |-> 0, by |-> g.leaf, kp |-> i] : i \in {i \in 1..Len(kps) : ~kps[i].used /\ kps[i].owner \notin Members(g.tree)}}
    \cup {[kind |-> "rem", ref |-> 0, by |-> g.leaf, target |-> l] : l \in OccupiedLeaves(g.tree) \ {g.leaf}}

PickItem(g) ==
    IF RandomElement(1..(10 + Z)) <= 8 /\ ValidByValue(g) # {} THEN RandomElement(ValidByValue(g)) ELSE RandomElement(ByValueItems(g))
PickByVal(g) == LET k == RandomElement(0..(ByValueMax + Z)) IN [i \in 1..k |-> PickItem(g)]

SimOther ==
    \/ \E p \in Parties : GenKeyPackage(p)
    \/ \E p \in Parties : \E i \in 1..Len(kps) : ProposeAdd(p, i)
    \/ \E p \in Parties : HasGroup(p) /\ \E l \in {RandomElement(LeafSlots(grp[p].tree))} : ProposeRemove(p, l)
    \/ \E p \in Parties : ProposeUpdate(p)
    \/ \E p \in Parties : HasGroup(p) /\ \E bv \in {PickByVal(grp[p])} : Commit(p, bv)
    \/ \E p \in Parties : HasGroup(p) /\ \E bv \in {PickByVal(grp[p])} : Commit(p, bv)
    \/ \E p \in Parties : ClearPending(p)
    \/ \E p \in {RParty} : ApplyPending(p)
    \/ Len(commits) > 0 /\ \E q \in {RParty} : \E n \in {RandomElement(1..Len(commits))} : DeliverCommit(q, n)
    \/ Len(props) > 0 /\ \E q \in {RParty} : \E j \in {RandomElement(1..Len(props))} : DeliverProposal(q, j)
    \/ \E q \in Parties : Retire(q)

SimNext ==
    \E r \in {RandomElement(1..(100 + Z))} :
        IF r <= WProgress /\ ProgressEnabled THEN Progress ELSE SimOther

SimSpec == Init /\ [][SimNext]_vars

\* witnesses that the interesting mechanisms were exercised (vacuity guards; see DESIGN section 7)
HasInteriorBlank(tree) == \E l \in LeafSlots(tree) : IsBlank(Node(tree, 2 * l))
HasUnmerged(tree) == \E x \in 0..(Len(tree) - 1) : IsParentRec(Node(tree, x)) /\ Node(tree, x).um # <<>>
=============================================================================
