------------------------------ MODULE MC_core ------------------------------
EXTENDS MlsGroup

CONSTANT Depth      \* simulation: behaviours are printed when they reach this length

\* bounded-depth exhaustive exploration for instances whose full graph is too large
LevelBound == TLCGet("level") <= Depth

\* one JSON line per simulated behaviour (spec -> impl replay)
\* a simulated trace that dies before Depth (a category without enabled action) is not lost entirely: its first half
\* is printed too; the behaviour generator drops a half whose full trace follows
EmitAtDepth ==
    (TLCGet("level") = Depth \/ TLCGet("level") = (Depth \div 2) + 1) =>
        PrintT(<<"REPLAY", ToJson([cfg |-> [pathReq |-> opt.pathReq, enc |-> opt.enc, jit |-> opt.jit, retention |-> Retention, window |-> Window, psk |-> pskStore, parties |-> Parties, creator |-> Creator, capX |-> CapX, capY |-> CapY, features |-> Features],
                                   steps |-> [i \in 1..Len(hist) |-> hist[i] @@ [aux |-> haux[i]]]])>>)

(***************************************************************************)
(* Simulation shaping.  SimNext is a sub-relation of Next (every SimNext   *)
(* step is a Next step with particular arguments): a category is drawn     *)
(* first (protocol progress vs. anything else) and arguments are drawn     *)
(* with RandomElement, so that random behaviours reach deep epochs and     *)
(* rich tree shapes while still containing stale deliveries, failing       *)
(* commits, cleared commits, races.  Used only with `tlc -simulate`.       *)
(***************************************************************************)
CONSTANTS WProgress

\* TLC caches constant-level expressions: make every random draw state-level
Z == 0 * Len(hist)
RParty == RandomElement({p \in Parties : Z = 0})

CurrentWinnerFor(q) ==
    {n \in 1..Len(commits) : IsWinner(n) /\ commits[n].baseKs = grp[q].ks /\ commits[n].baseEpoch = grp[q].epoch}

DsEnabled(n) ==
    /\ winner[commits[n].baseEpoch] = 0
    /\ IF commits[n].baseEpoch = 0 THEN TRUE ELSE winner[commits[n].baseEpoch - 1] = commits[n].baseKs
    /\ grp[commits[n].by].st = "member" /\ (grp[commits[n].by].pend = n \/ n \in det[commits[n].by])

\* enabled progress steps (guards only: cheap), one of which is drawn at random
ProgChoices ==
    {[t |-> "ds", p |-> "", n |-> n] : n \in {n \in 1..Len(commits) : DsEnabled(n)}}
    \cup {[t |-> "apply", p |-> p, n |-> 0] : p \in {p \in Parties : HasGroup(p) /\ grp[p].pend # 0 /\ IsWinner(grp[p].pend)}}
    \cup UNION {{[t |-> "applydet", p |-> p, n |-> n] : n \in {n \in det[p] : IsWinner(n) /\ commits[n].baseKs = grp[p].ks}} : p \in {p \in Parties : HasGroup(p)}}
    \cup UNION {{[t |-> "deliver", p |-> q, n |-> n] : n \in {n \in CurrentWinnerFor(q) : commits[n].by # q /\ n \notin grp[q].seenC}} :
                 q \in {q \in Parties : HasGroup(q)}}
    \cup {[t |-> "retire", p |-> q, n |-> 0] : q \in {q \in Parties : HasGroup(q) /\ \E n \in CurrentWinnerFor(q) : grp[q].leaf \in commits[n].removed}}
    \cup UNION {{[t |-> "join", p |-> q, n |-> n] : n \in {n \in 1..Len(commits) : IsWinner(n) /\
                        \E i \in 1..Len(commits[n].added) : kps[commits[n].added[i][1]].owner = q /\ ~kps[commits[n].added[i][1]].used}} :
                 q \in {q \in Parties : ~HasGroup(q)}}
    \cup UNION {{[t |-> "dprop", p |-> q, n |-> j] : j \in {j \in 1..Len(props) : props[j].ks = grp[q].ks /\ props[j].by # q /\ j \notin grp[q].cache}} :
                 q \in {q \in Parties : HasGroup(q)}}

ProgressEnabled == ProgChoices # {}

Progress ==
    \E c \in {RandomElement(ProgChoices)} :
        CASE c.t = "ds" -> DsChoose(c.n)
          [] c.t = "apply" -> ApplyPending(c.p)
          [] c.t = "applydet" -> ApplyDetached(c.p, c.n)
          [] c.t = "deliver" -> DeliverCommit(c.p, c.n)
          [] c.t = "retire" -> Retire(c.p)
          [] c.t = "join" -> JoinWelcome(c.p, c.n)
          [] c.t = "dprop" -> DeliverProposal(c.p, c.n)

ValidByValue(g) ==
    {[kind |-> "add", ref |-> 0, by |-> g.leaf, kp |-> i] : i \in {i \in 1..Len(kps) : ~kps[i].used /\ kps[i].owner \notin Members(g.tree)}}
    \cup {[kind |-> "rem", ref |-> 0, by |-> g.leaf, target |-> l] : l \in OccupiedLeaves(g.tree) \ {g.leaf}}
    \cup (IF "psk" \in Features THEN {[kind |-> "psk", ref |-> 0, by |-> g.leaf, id |-> id] : id \in PskIds}
                                        \cup {[kind |-> "rpsk", ref |-> 0, by |-> g.leaf, epoch |-> e] : e \in 0..g.epoch} ELSE {})
    \cup (IF "gce" \in Features THEN {[kind |-> "gce", ref |-> 0, by |-> g.leaf, ver |-> 100 + Len(commits) + 1000 * code] : code \in ReqCodes} ELSE {})
    \cup (IF "custom" \in Features THEN {[kind |-> "custom", ref |-> 0, by |-> g.leaf, ver |-> 100 + Len(commits)]} ELSE {})

ValidAdds(g) == {it \in ValidByValue(g) : it.kind = "add"}
ValidRems(g) == {it \in ValidByValue(g) : it.kind = "rem"}
ValidOther(g) == {it \in ValidByValue(g) : it.kind \notin {"add", "rem"}}

\* by-value proposals: mostly adds (trees must grow for unmerged leaves and deep paths), some removals,
\* PSK / GCE where enabled, and a tail of arbitrary (mostly invalid) ones
\* removal of the right-most other member: shrinks the tree across power-of-two boundaries (trim, hash caches)
RightmostRem(g) ==
    LET others == OccupiedLeaves(g.tree) \ {g.leaf} IN
    IF others = {} THEN {} ELSE {[kind |-> "rem", ref |-> 0, by |-> g.leaf, target |-> CHOOSE l \in others : \A m \in others : m <= l]}

PickItem(g) ==
    LET r == RandomElement(1..(20 + Z)) IN
    IF r <= 9 /\ ValidAdds(g) # {} THEN RandomElement(ValidAdds(g))
    ELSE IF r <= 11 /\ RightmostRem(g) # {} THEN RandomElement(RightmostRem(g))
    ELSE IF r <= 13 /\ ValidRems(g) # {} THEN RandomElement(ValidRems(g))
    ELSE IF r <= 17 /\ ValidOther(g) # {} THEN RandomElement(ValidOther(g))
    ELSE IF r <= 18 THEN RandomElement(ByValueItems(g))
    ELSE IF ValidByValue(g) # {} THEN RandomElement(ValidByValue(g)) ELSE RandomElement(ByValueItems(g))

\* a run of removals from the right edge (two or three members of the right half in one commit)
ShrinkItems(g) ==
    LET others == OccupiedLeaves(g.tree) \ {g.leaf}
        top == {l \in others : Cardinality({m \in others : m > l}) < 3}
    IN SetToSortedSeq(top)
PickShrink(g) == LET s == ShrinkItems(g) IN [i \in 1..Len(s) |-> [kind |-> "rem", ref |-> 0, by |-> g.leaf, target |-> s[Len(s) + 1 - i]]]
PickByVal(g) ==
    IF ByValueMax >= 3 /\ RandomElement(1..(12 + Z)) = 1 /\ Cardinality(OccupiedLeaves(g.tree)) >= 4
    THEN PickShrink(g)
    ELSE LET k == RandomElement(0..(ByValueMax + Z)) IN [i \in 1..k |-> PickItem(g)]

CONSTANTS WPropose, WCommit, WApp, WStore, LateBias      \* category weights (percent) of non-progress steps

Mem == {p \in Parties : HasGroup(p)}
\* one member drawn at random (re-drawn at every use): successors are computed for one actor only
OneMem == IF Mem = {} THEN {} ELSE {RandomElement({p \in Mem : Z = 0})}

Filler ==   \* always enabled once somebody is a member: a failing or stale call (state-preservation checks)
    \/ \E p \in {RandomElement({p \in Parties : HasGroup(p) /\ Z = 0})} : ApplyPending(p)
    \/ Len(commits) > 0 /\ \E q \in {RandomElement({p \in Parties : HasGroup(p) /\ Z = 0})} :
            \E n \in {RandomElement(1..Len(commits))} : DeliverCommit(q, n)

SimPropose ==
    \/ \E p \in Parties : \E lr \in {RandomElement({b \in LrChoices : Z = 0})} : GenKeyPackage(p, lr)
    \/ \E p \in {RandomElement(Mem \cup {Creator : z \in {Z}})} : \E i \in 1..Len(kps) : ProposeAdd(p, i)
    \/ \E p \in Mem : RandomElement(1..(3 + Z)) = 1 /\ \E l \in {RandomElement(LeafSlots(grp[p].tree))} : ProposeRemove(p, l)
    \/ \E p \in Mem : ProposeUpdate(p)
    \/ \E p \in Mem : ProposeUpdate(p)
    \/ \E p \in {RParty} : \E why \in {"expired", "cred"} : GenBadKeyPackage(p, why)
    \/ \E p \in Mem : \E id \in PskIds : ProposePsk(p, id)
    \/ \E p \in Mem : \E e \in {RandomElement(0..grp[p].epoch)} : ProposeResumptionPsk(p, e)
    \/ \E p \in Mem : \E code \in {RandomElement({c \in ReqCodes : Z = 0})} : ProposeGce(p, code)
    \/ \E p \in Mem : ProposeCustom(p)
    \/ \E r \in OneMem : \E q \in Parties : NewMemberPropose(q, r)
    \/ \E p \in Mem : RandomElement(1..(4 + Z)) = 1 /\ ProposeReinit(p)

\* q holds the secrets of the epoch app a was sent in: its current epoch, or a prior epoch it still has a record of
Readable(q, a) ==
    \/ apps[a].ks = grp[q].ks
    \/ \E i \in 1..Len(repo[q].ins) : repo[q].ins[i].ks = apps[a].ks
    \/ \E i \in 1..Len(repo[q].upd) : repo[q].upd[i].ks = apps[a].ks
    \/ \E i \in 1..Len(store[q].epochs) : store[q].epochs[i].ks = apps[a].ks
\* Churn around late messages: a member that has sent application data in the current epoch is removed; a party
\* whose messages the committer can still read comes back, after another party that takes the first free leaf
\* (so the returning sender lands on another leaf than the one its late messages name)
Unused(q) == {i \in 1..Len(kps) : ~kps[i].used /\ kps[i].bad = "" /\ kps[i].owner = q}
SimChurn ==
    \/ \E p \in Mem : \E l \in {l \in OccupiedLeaves(grp[p].tree) \ {grp[p].leaf} :
                                    \E a \in 1..Len(apps) : apps[a].ks = grp[p].ks /\ apps[a].byLeaf = l} :
            grp[p].pend = 0 /\ Commit(p, <<[kind |-> "rem", ref |-> 0, by |-> grp[p].leaf, target |-> l]>>, FALSE)
    \/ \E p \in Mem : \E s \in {s \in Parties \ Members(grp[p].tree) : Unused(s) # {} /\ \E a \in 1..Len(apps) : apps[a].by = s /\ Readable(p, a)} :
            \E n \in {n \in Parties \ (Members(grp[p].tree) \cup {s}) : Unused(n) # {}} :
                grp[p].pend = 0 /\
                Commit(p, <<[kind |-> "add", ref |-> 0, by |-> grp[p].leaf, kp |-> CHOOSE i \in Unused(n) : TRUE],
                            [kind |-> "add", ref |-> 0, by |-> grp[p].leaf, kp |-> CHOOSE i \in Unused(s) : TRUE]>>, FALSE)

SimCommit ==
    \/ "apps" \in Features /\ LateBias > 3 /\ SimChurn
    \/ \E p \in OneMem : \E bv \in {PickByVal(grp[p])} :
            \E dt \in {RandomElement({b \in BOOLEAN : Z = 0 /\ (b => ("detached" \in Features /\ RandomElement(1..(3 + Z)) = 1))})} : Commit(p, bv, dt)
    \/ RandomElement(1..(5 + Z)) = 1 /\ \E p \in Mem : ClearPending(p)
    \/ "extcommit" \in Features /\ \E p \in OneMem : \E q \in {RParty} : \E rs \in {(q \in Members(grp[p].tree)) /\ (RandomElement(1..(4 + Z)) > 1)} : ExternalCommit(q, p, rs)
    \/ \E p \in Mem : \E n \in det[p] : ApplyDetached(p, n)

\* application traffic: bursts, deliveries biased to what the receiver can still read, the newest message
\* first (reordering), and re-delivery of messages that were already accepted (replay)
Accepted == {i \in 1..Len(hist) : hist[i].a = "DeliverApp" /\ hist[i].res = "ok"}
LateAccepted == {i \in Accepted : HasGroup(hist[i].p) /\ apps[hist[i].args.app].epoch < grp[hist[i].p].epoch}
SimAppRegular ==
    \/ \E p \in Mem : \E k \in {RandomElement({1, 1, 2, 3, 3, Window, Window + 1, Window + 2, 2 + Z})} : Encrypt(p, k)
    \/ Len(apps) > 0 /\ \E q \in Mem : \E a \in {RandomElement(1..Len(apps))} :
            \E gen \in {RandomElement({apps[a].lo, apps[a].hi, RandomElement(apps[a].lo..apps[a].hi)})} : DeliverApp(q, a, gen)
    \/ \E q \in Mem : \E a \in {a \in 1..Len(apps) : Readable(q, a)} :
            \E gen \in {apps[a].hi, RandomElement(apps[a].lo..apps[a].hi)} : DeliverApp(q, a, gen)
    \/ \E q \in Mem : \E a \in {a \in 1..Len(apps) : Readable(q, a)} :
            \E gen \in {apps[a].hi, RandomElement(apps[a].lo..apps[a].hi)} : DeliverApp(q, a, gen)
    \/ Accepted # {} /\ \E i \in {RandomElement(Accepted)} : DeliverApp(hist[i].p, hist[i].args.app, hist[i].args.gen)
    \/ Accepted # {} /\ \E i \in {RandomElement(Accepted)} : DeliverApp(hist[i].p, hist[i].args.app, hist[i].args.gen)

\* late messages (of epochs the receiver has left but still retains): first deliveries in any order of epochs
\* (ascending and descending), re-delivery of accepted ones.  Drawn with a weight of its own: the regular
\* disjuncts have so many instances that uniformly chosen successors would hardly ever be late ones.
\* (priorities, all deterministic so that ENABLED and the step agree: a write as soon as a member has touched two
\* stored prior epochs newer first; else, for a member that has touched a stored epoch, a message of an older stored
\* epoch it has not consumed yet; else any readable late message or a re-delivery of a recent late one)
DescPair(p) == \E x, y \in 1..Len(repo[p].upd) : x < y /\ repo[p].upd[x].epoch > repo[p].upd[y].epoch
DescCands ==
    {c \in UNION {{<<q, a>> : a \in 1..Len(apps)} : q \in Mem} :
        LET q == c[1]  a == c[2] IN
        /\ repo[q].upd # <<>> /\ ~DescPair(q)
        /\ apps[a].epoch < repo[q].upd[Len(repo[q].upd)].epoch
        /\ \E k \in 1..Len(store[q].epochs) : store[q].epochs[k].ks = apps[a].ks
        /\ ~\E k \in 1..Len(repo[q].upd) : repo[q].upd[k].ks = apps[a].ks
        /\ \E g \in apps[a].lo..apps[a].hi : ~\E j \in Accepted : hist[j].p = q /\ hist[j].args.app = a /\ hist[j].args.gen = g}
SimAppLate ==
    IF "storage" \in Features /\ \E p \in Mem : DescPair(p)
    THEN \E p \in {p \in Mem : DescPair(p)} : Write(p)
    ELSE IF DescCands # {}
    THEN \E c \in DescCands :
            \E gen \in {g \in apps[c[2]].lo..apps[c[2]].hi : ~\E j \in Accepted : hist[j].p = c[1] /\ hist[j].args.app = c[2] /\ hist[j].args.gen = g} :
                DeliverApp(c[1], c[2], gen)
    ELSE
    \/ \E q \in Mem : \E a \in {a \in 1..Len(apps) : apps[a].ks # grp[q].ks /\ Readable(q, a)} :
            \E gen \in {apps[a].lo, apps[a].hi} : DeliverApp(q, a, gen)
    \/ \E i \in {i \in LateAccepted : Cardinality({j \in LateAccepted : j > i}) < 3} : DeliverApp(hist[i].p, hist[i].args.app, hist[i].args.gen)
SimApp == IF RandomElement(1..(10 + Z)) <= LateBias /\ ENABLED SimAppLate THEN SimAppLate ELSE SimAppRegular

SimStore ==
    \/ \E p \in Mem : Write(p)
    \/ \E p \in Mem : Write(p)
    \/ \E p \in Parties : Load(p)

SimMisc ==
    \/ Filler
    \/ \E q \in Parties : Retire(q)
    \/ Len(props) > 0 /\ \E q \in Mem : \E j \in {RandomElement(1..Len(props))} : DeliverProposal(q, j)
    \/ \E p \in Parties : \E lr \in {RandomElement({b \in LrChoices : Z = 0})} : GenKeyPackage(p, lr)

SimOther ==
    \E c \in {RandomElement(1..(100 + Z))} :
        IF c <= WPropose THEN (IF ENABLED SimPropose THEN SimPropose ELSE SimMisc)
        ELSE IF c <= WPropose + WCommit THEN SimCommit
        ELSE IF c <= WPropose + WCommit + WApp /\ "apps" \in Features THEN SimApp
        ELSE IF c <= WPropose + WCommit + WApp + WStore /\ "storage" \in Features THEN SimStore
        ELSE SimMisc

\* Bootstrap: behaviours of the "big tree" configurations first grow the group to BootSize members in the
\* fewest steps (key packages, by-value adds three at a time, joins), so that the random part of the behaviour
\* runs on a full tree (deep paths, many receivers at different distances, room for interior blanks)
CONSTANT BootSize
SuccAfter == 25       \* simulation: no re-init commit before this depth (the old group needs some history first)

Outstanding == {i \in 1..Len(kps) : ~kps[i].used /\ kps[i].bad = ""}
Booting == BootSize > 0 /\ Cardinality(Mem) < BootSize /\ TLCGet("level") < 6 * BootSize

BootAdds(g) ==
    LET cand == SetToSortedSeq({i \in Outstanding : kps[i].owner \notin Members(g.tree)})
        k == IF Len(cand) > 3 THEN 3 ELSE Len(cand)
    IN [i \in 1..k |-> [kind |-> "add", ref |-> 0, by |-> g.leaf, kp |-> cand[i]]]

Bootstrap ==
    IF ProgressEnabled THEN Progress
    ELSE IF \E p \in Parties : ~HasGroup(p) /\ ~\E i \in Outstanding : kps[i].owner = p
    THEN \E p \in Parties : \E lr \in {RandomElement({b \in LrChoices : Z = 0})} : GenKeyPackage(p, lr)
    ELSE \E p \in {RandomElement({q \in Mem : Z = 0})} : Commit(p, BootAdds(grp[p]), FALSE)

\* the observer is (re)started now and then and is fed the public traffic with priority (so that it keeps up)
SimObs ==
    \/ (obs.st = "off" \/ RandomElement(1..(12 + Z)) = 1) /\ \E p \in Mem : ObsJoin(p)
    \/ obs.st = "on" /\ \E j \in {j \in 1..Len(props) : props[j].epoch = obs.epoch /\ j \notin obs.cache} : ObsDeliverProposal(j)
    \/ obs.st = "on" /\ \E n \in {n \in 1..Len(commits) : IsWinner(n) /\ commits[n].baseEpoch = obs.epoch} : ObsDeliverCommit(n)
    \/ obs.st = "on" /\ \E n \in {n \in 1..Len(commits) : IsWinner(n) /\ commits[n].baseEpoch = obs.epoch} : ObsDeliverCommit(n)
    \/ obs.st = "on" /\ Len(commits) > 0 /\ RandomElement(1..(4 + Z)) = 1 /\ \E n \in {RandomElement(1..Len(commits))} : ObsDeliverCommit(n)
    \/ obs.st = "on" /\ Len(apps) > 0 /\ \E a \in {RandomElement(1..Len(apps))} : ObsDeliverApp(a, apps[a].lo)
    \/ obs.st = "on" /\ RandomElement(1..(6 + Z)) = 1 /\ ObsSnapshotRestore
    \/ obs.st = "on" /\ \E i \in 1..Len(kps) : ObsPropose("add", i)
    \/ obs.st = "on" /\ \E l \in {RandomElement(LeafSlots(obs.tree))} : ObsPropose("rem", l)
    \/ obs.st = "on" /\ RandomElement(1..(2 + Z)) = 1 /\ \E kind \in {"gce", "custom"} : ObsPropose(kind, 0)
    \/ obs.st = "on" /\ RandomElement(1..(2 + Z)) = 1 /\ \E id \in PskIds : ObsPropose("psk", id)
    \/ obs.st = "on" /\ TLCGet("level") > 20 /\ RandomElement(1..(3 + Z)) = 1 /\ ObsPropose("reinit", 0)

\* successor groups: key packages of members, creation with the exact member set / one missing / an outsider
\* added, joins through the right and the wrong API; a by-value re-init commit once the group has some history
NewestSuccKp(q) == LET c == {i \in SuccKps : kps[i].owner = q} IN IF c = {} THEN {} ELSE {CHOOSE i \in c : \A j \in c : j <= i}
PickSuccSet(p) ==
    LET old == Members(grp[p].tree) \ {p}
        exact == UNION {NewestSuccKp(q) : q \in old}
        outs == UNION {NewestSuccKp(q) : q \in Parties \ Members(grp[p].tree)}
        r == RandomElement(1..(10 + Z))
    IN IF r <= 6 \/ exact = {} THEN exact
       ELSE IF r <= 8 THEN exact \ {RandomElement(exact)}
       ELSE IF outs # {} THEN exact \cup {RandomElement(outs)}
       ELSE exact
ReinitCommitted == \E n \in 1..Len(commits) : commits[n].reinit
SimReinitCommit ==
    "reinit" \in Features /\ TLCGet("level") > SuccAfter /\ ~ReinitCommitted /\
    \E p \in {q \in Mem : ~grp[q].frozen /\ grp[q].cache = {} /\ grp[q].pend = 0} :
        Commit(p, <<[kind |-> "reinit", ref |-> 0, by |-> grp[p].leaf]>>, FALSE)
CanGenSucc == {p \in Parties : Len(kps) < MaxKps /\ ~\E i \in SuccKps : kps[i].owner = p /\ ~\E s \in 1..Len(succ) : i \in Range(succ[s].kp)}
SimSuccGen == CanGenSucc # {} /\ \E p \in {RandomElement({q \in CanGenSucc : Z = 0})} : GenSuccKeyPackage(p)
SimSuccCreate ==
    \E p \in OneMem : \E kind \in {IF grp[p].frozen THEN <<"reinit", "reinit", "reinit", "branch">>[RandomElement(1..(4 + Z))]
                                                      ELSE <<"branch", "branch", "reinit">>[RandomElement(1..(3 + Z))]} :
        \E S \in {PickSuccSet(p)} :
            \E tw \in {IF "succtweak" \in Features /\ RandomElement(1..(4 + Z)) <= (IF kind = "reinit" THEN 2 ELSE 1)
                        THEN (IF kind = "reinit" THEN <<"gid", "gid", "ext">>[RandomElement(1..(3 + Z))] ELSE "ext") ELSE "none"} :
                SuccCreate(kind, p, S, tw)
Joinable == {s \in 1..Len(succ) : DOMAIN succ[s].kp # {}}
SimSuccForge ==
    \E r \in OneMem : \E p \in {RParty} : \E kind \in {<<"reinit", "branch">>[RandomElement(1..(2 + Z))]} :
        \E S \in {UNION {NewestSuccKp(q) : q \in Members(grp[r].tree) \ {p}}} : SuccForge(kind, p, r, S)
SimSuccJoin ==
    \* (successors whose creator deviated from the announcement are tried first, through the matching API, by a party
    \* that could have joined the honest version)
    LET tw == {x \in Joinable : succ[x].tweak # "none" /\ \E q \in DOMAIN succ[x].kp : HasGroup(q) /\ grp[q].ks = succ[x].ks /\ ~\E i \in 1..Len(hist) : hist[i].a = "SuccJoin" /\ hist[i].p = q /\ hist[i].args.succ = x}
    IN IF tw # {}
       THEN \E s \in {RandomElement({x \in tw : Z = 0})} :
                \E q \in {RandomElement({q \in DOMAIN succ[s].kp : HasGroup(q) /\ grp[q].ks = succ[s].ks /\ ~\E i \in 1..Len(hist) : hist[i].a = "SuccJoin" /\ hist[i].p = q /\ hist[i].args.succ = s})} :
                    SuccJoin(q, s, succ[s].kind)
       ELSE
    Joinable # {} /\ \E s \in {RandomElement({x \in Joinable : Z = 0})} : \E q \in {RandomElement(DOMAIN succ[s].kp)} :
        \E how \in {IF HasGroup(q) THEN <<"reinit", "branch", "plain", succ[s].kind, succ[s].kind, succ[s].kind>>[RandomElement(1..(6 + Z))] ELSE "plain"} :
            SuccJoin(q, s, how)
SimSucc ==
    \E r \in {RandomElement(1..(100 + Z))} :
        IF r <= 45 /\ ENABLED SimReinitCommit THEN SimReinitCommit /\ UNCHANGED <<obs, succ>>
        ELSE IF r <= 60 /\ ENABLED SimSuccGen THEN SimSuccGen /\ UNCHANGED obs
        ELSE IF r <= 64 /\ ENABLED SimSuccForge THEN SimSuccForge /\ UNCHANGED obs
        ELSE IF r <= 80 /\ ENABLED SimSuccCreate THEN SimSuccCreate /\ UNCHANGED obs
        ELSE IF ENABLED SimSuccJoin THEN SimSuccJoin /\ UNCHANGED obs
        ELSE IF ENABLED SimSuccGen THEN SimSuccGen /\ UNCHANGED obs
        ELSE SimSuccCreate /\ UNCHANGED obs

SimMember ==
    IF Booting THEN Bootstrap
    ELSE \E r \in {RandomElement(1..(100 + Z))} :
            IF r <= WProgress /\ ProgressEnabled THEN Progress ELSE SimOther

SimNext ==
    IF "observer" \in Features /\ ~Booting /\ RandomElement(1..(100 + Z)) <= 25 /\ ENABLED SimObs
    THEN SimObs /\ UNCHANGED succ
    ELSE IF "succ" \in Features /\ ~Booting /\ RandomElement(1..(100 + Z)) <= (IF \E p \in Parties : HasGroup(p) /\ grp[p].frozen THEN 70 ELSE 25) /\ ENABLED SimSucc
    THEN SimSucc
    ELSE SimMember /\ UNCHANGED <<obs, succ>>

SimSpec == Init /\ [][Logged(SimNext)]_vars

\* witnesses that the interesting mechanisms were exercised (vacuity guards; see DESIGN section 7)
HasInteriorBlank(tree) == \E l \in LeafSlots(tree) : IsBlank(Node(tree, 2 * l))
HasUnmerged(tree) == \E x \in 0..(Len(tree) - 1) : IsParentRec(Node(tree, x)) /\ Node(tree, x).um # <<>>
=============================================================================
