SPECIFICATION SimSpec
CONSTANTS
  Parties = {"p1", "p2", "p3", "p4"}
  Creator = "p1"
  MaxCommits = 40
  MaxProps = 40
  MaxKps = 40
  MaxEpoch = 30
  PathRequiredChoices = {FALSE, TRUE}
  EncChoices = {FALSE, TRUE}
  ByValueMax = 2
  AllowConflicts = FALSE
  Features = {"apps", "storage", "newid"}
  Window = 1024
  Retention = 2
  BurstSizes = {1, 2}
  PskIds = {}
  PskValues = {"none"}
  JitterChoices = {99999}
  Deviations = {"F12", "F14", "F24"}
  MaxApps = 30
  MaxSucc = 6
  CapX = {}
  CapY = {}
  Depth = 60
  BootSize = 0
  WProgress = 55
  WPropose = 10
  WCommit = 30
  WApp = 35
  LateBias = 3
  WStore = 20
INVARIANT EmitAtDepth
CHECK_DEADLOCK FALSE
