------------------------------ MODULE MC_props ------------------------------
(***************************************************************************)
(* C10 by exhaustive *input* enumeration.  ApplyProposals (the model of    *)
(* apply_resolved + batch_edit with its two strategies) is a function of   *)
(* the tree, the committer, the evaluating party's PSKs / retained epochs  *)
(* and the proposal list.  From a fixed member state with an interior      *)
(* blank leaf, every list of at most MaxLen proposals over a universe of   *)
(* valid and invalid, by-value and by-reference proposals is evaluated for *)
(* every committer, and the theorems of the property are checked:          *)
(*   SendImpliesRecv   what the sender keeps, a receiver accepts unchanged *)
(*   Legal             the kept list breaks no RFC 9420 12.2 rule          *)
(*   ByValueOffender   an invalid by-value proposal makes the build fail   *)
(*   ByRefDropped      an invalid by-reference proposal never makes it fail*)
(***************************************************************************)
EXTENDS MlsGroup

CONSTANT MaxLen

\* members p1 (leaf 0), p2 (leaf 1), p4 (leaf 3); leaf 2 blank
T0 == <<MkLeaf("a0", "p1", 0, "kp"), MkParent("x1", <<>>), MkLeaf("a1", "p2", 0, "kp"), MkParent("x3", <<3>>),
        Blank, Blank, MkLeaf("a3", "p4", 0, "kp")>>

Member(p, l) == [st |-> "member", epoch |-> 2, ks |-> 2, leaf |-> l, tree |-> T0, priv |-> (2 * l :> "k"),
                 cache |-> {}, pend |-> 0, pendUpd |-> {}, seenC |-> {}, sendGen |-> 0, recv |-> <<>>,
                 hsSend |-> 0, hsRecv |-> <<>>, ext |-> 0, frozen |-> FALSE]

PInit ==
    /\ opt = [pathReq |-> FALSE, enc |-> FALSE, jit |-> 99999]
    /\ obs = [st |-> "off"] /\ succ = <<>>
    /\ grp = [p \in Parties |-> CASE p = "p1" -> Member(p, 0) [] p = "p2" -> Member(p, 1) [] p = "p4" -> Member(p, 3) [] OTHER -> NoGroup]
    /\ zomb = [p \in Parties |-> <<>>]
    \* kp1: valid package of non-member p3; kp2: expired; kp3: package of p2, who is a member already
    /\ kps = <<[owner |-> "p3", cv |-> 0, used |-> FALSE, bad |-> ""], [owner |-> "bad", cv |-> 0, used |-> FALSE, bad |-> "expired"],
               [owner |-> "p2", cv |-> 0, used |-> FALSE, bad |-> ""]>>
    /\ props = <<>> /\ commits = <<>>
    /\ winner = [e \in 0..MaxEpoch |-> 0]
    /\ repo = [p \in Parties |-> [ins |-> <<[ks |-> 1, epoch |-> 1, leaf |-> 0, recv |-> <<>>, who |-> <<>>]>>, upd |-> <<>>]]
    /\ store = [p \in Parties |-> [snap |-> NoGroup, epochs |-> <<>>, sql |-> <<>>]]
    /\ apps = <<>> /\ det = [p \in Parties |-> {}]
    \* everybody holds k1 with the same value; nobody holds k2
    /\ pskStore = [p \in Parties |-> [id \in PskIds |-> IF id = "k1" THEN "a" ELSE "none"]]
    /\ hist = <<>> /\ haux = <<>>

PNext == UNCHANGED vars

\* the proposal universe: kind, by-value (ref = 0) or by-reference (ref = distinct fake id), sender leaf
Universe(c) ==
    LET mk(r) == {[kind |-> "add", ref |-> r, by |-> 1, kp |-> 1], [kind |-> "add", ref |-> r, by |-> 1, kp |-> 2],
                  [kind |-> "add", ref |-> r, by |-> 1, kp |-> 3],
                  [kind |-> "rem", ref |-> r, by |-> 1, target |-> 0], [kind |-> "rem", ref |-> r, by |-> 1, target |-> 1],
                  [kind |-> "rem", ref |-> r, by |-> 1, target |-> 3], [kind |-> "rem", ref |-> r, by |-> 1, target |-> 2],
                  [kind |-> "psk", ref |-> r, by |-> 1, id |-> "k1"], [kind |-> "psk", ref |-> r, by |-> 1, id |-> "k2"],
                  [kind |-> "rpsk", ref |-> r, by |-> 1, epoch |-> 1], [kind |-> "rpsk", ref |-> r, by |-> 1, epoch |-> 0],
                  [kind |-> "gce", ref |-> r, by |-> 1, ver |-> 7], [kind |-> "reinit", ref |-> r, by |-> 1]}
    IN mk(0) \cup mk(1)
       \cup {[kind |-> "upd", ref |-> 1, by |-> l, key |-> "u"] : l \in {0, 1, 3}}

\* give by-reference items of a list distinct references
Number(items) == [i \in 1..Len(items) |-> IF items[i].ref = 0 THEN items[i] ELSE [items[i] EXCEPT !.ref = i]]

Lists(c) == UNION {[1..n -> Universe(c)] : n \in 0..MaxLen}

Committers == {0, 1, 3}
PartyAt(l) == CASE l = 0 -> "p1" [] l = 1 -> "p2" [] l = 3 -> "p4"

\* individual validity of one proposal for committer c (RFC 9420 12.2, used only to state the theorems)
\* (re-adding p2 with package 3 is legal exactly when the same list removes p2's leaf 1: removals are applied first)
Valid1(c, its, it) ==
    CASE it.kind = "add" -> it.kp = 1 \/ (it.kp = 3 /\ \E k \in 1..Len(its) : its[k].kind = "rem" /\ its[k].target = 1)
      [] it.kind = "rem" -> it.target \in {0, 1, 3} /\ it.target # c
      [] it.kind = "upd" -> it.by # c
      [] it.kind = "psk" -> it.id = "k1"
      [] it.kind = "rpsk" -> it.epoch = 1
      [] OTHER -> TRUE

Legal(c, its) ==
    /\ \A i \in 1..Len(its) : Valid1(c, its, its[i])
    /\ Len(OfKind(its, "gce")) <= 1
    /\ (HasReinit(its) => Len(its) = 1)
    /\ \A i, j \in 1..Len(its) : (i # j /\ its[i].kind \in {"upd", "rem"} /\ its[j].kind \in {"upd", "rem"}) =>
          (IF its[i].kind = "upd" THEN its[i].by ELSE its[i].target) # (IF its[j].kind = "upd" THEN its[j].by ELSE its[j].target)
    /\ \A i, j \in 1..Len(its) : (i # j /\ its[i].kind = "add" /\ its[j].kind = "add") => its[i].kp # its[j].kp

Check(c, items) ==
    LET sr == ApplyProposals("send", PartyAt(c), T0, c, items, 0) IN
    IF sr.ok /\ ~Legal(c, sr.applied) THEN "illegal list committed"
    ELSE IF sr.ok /\ \E r \in Committers \ {c} :
                LET rr == ApplyProposals("recv", PartyAt(r), T0, c, sr.applied, 0) IN
                ~(rr.ok /\ rr.applied = sr.applied /\ rr.tree = sr.tree /\ rr.added = sr.added /\ rr.removed = sr.removed)
         THEN "receiver disagrees with sender"
    \* nothing by value is silently dropped
    ELSE IF sr.ok /\ \E i \in 1..Len(items) : items[i].ref = 0 /\ ~\E j \in 1..Len(sr.applied) : sr.applied[j] = items[i]
         THEN "by-value proposal dropped"
    \* an individually invalid by-value proposal is never committed
    ELSE IF sr.ok /\ \E i \in 1..Len(items) : items[i].ref = 0 /\ ~Valid1(c, items, items[i]) THEN "invalid by-value proposal committed"
    \* by-reference offenders alone never make the build fail (named deviation F12 excepted)
    ELSE IF ~sr.ok /\ (\A i \in 1..Len(items) : items[i].ref # 0)
                  /\ ~(\E i \in 1..Len(items) : items[i].kind = "rpsk" /\ items[i].epoch = 0)
         THEN "by-reference offender made the build fail"
    ELSE "ok"

Theorems ==
    \A c \in Committers : \A l0 \in Lists(c) :
        LET items == Number(l0)  v == Check(c, items) IN
        v = "ok" \/ PrintT(<<"COUNTEREXAMPLE", v, c, items>>) = FALSE
=============================================================================
