------------------------------ MODULE X509 ------------------------------
(***************************************************************************)
(* C14, second half: reference semantics of X.509 credential validation as *)
(* mls-rs uses it (RFC 9420 5.3: an ordered chain, each certificate        *)
(* certified by the one following it, the last one by a trust anchor; RFC  *)
(* 5280 6.1: signature, name chaining, validity period, basic constraints  *)
(* of every issuer).  TLC enumerates every chain of at most MaxLen         *)
(* certificates over a universe of abstract certificates, every set of     *)
(* trust anchors and every validation time around the validity boundaries, *)
(* and prints each case with the reference verdict.  The harness builds    *)
(* the real certificates and gives every case to the three shipped         *)
(* validators (OpenSSL, AWS-LC, RustCrypto).                               *)
(*                                                                         *)
(* Verdicts: "accept", "reject", and "any" where a permissive and a strict *)
(* reading of the standards differ (a path to an anchor exists in the      *)
(* set of supplied certificates, but not in the supplied order, or extra   *)
(* certificates follow the anchor): there only agreement of the providers  *)
(* is required.                                                            *)
(***************************************************************************)
EXTENDS Integers, Sequences, FiniteSets, TLC, Json, IOUtils

CONSTANTS MaxLen, Times

C(id, subj, iss, key, signer, ca, nb, na) ==
    [id |-> id, subj |-> subj, iss |-> iss, key |-> key, signer |-> signer, ca |-> ca, nb |-> nb, na |-> na]

\* the universe: two roots, intermediates (one that is not a CA, one second-level), leaves
Universe == {
    C("R",  "R",  "R",  "kR",  "kR",  TRUE,  0,  100),     \* trusted root
    C("R2", "R2", "R2", "kR2", "kR2", TRUE,  30, 70),      \* another root (trusted or not), staged late and retired early
    C("I",  "I",  "R",  "kI",  "kR",  TRUE,  10, 90),      \* intermediate CA under R
    C("In", "In", "R",  "kIn", "kR",  FALSE, 10, 90),      \* certificate under R that is not a CA
    C("I2", "I2", "I",  "kI2", "kI",  TRUE,  10, 90),      \* second-level intermediate under I
    C("L",  "L",  "I",  "kL",  "kI",  FALSE, 20, 80),      \* leaf under I
    C("Lw", "Lw", "I",  "kLw", "kR2", FALSE, 20, 80),      \* names I as issuer but is signed by another key
    C("Ln", "Ln", "In", "kLn", "kIn", FALSE, 20, 80),      \* leaf under the non-CA certificate
    C("L2", "L2", "I2", "kL2", "kI2", FALSE, 20, 80),      \* leaf under the second-level intermediate
    C("Lr", "Lr", "R",  "kLr", "kR",  FALSE, 20, 80),      \* leaf directly under R
    C("Lu", "Lu", "R2", "kLu", "kR2", FALSE, 20, 80) }     \* leaf under R2
Roots == {c \in Universe : c.id \in {"R", "R2"}}
ById(id) == CHOOSE c \in Universe : c.id = id

\* NoTime: the validator is called without a validation time (Option::None): validity periods are not checked
NoTime == 99999
InTime(c, t) == t = NoTime \/ (c.nb <= t /\ t <= c.na)
Issues(a, c) == c.iss = a.subj /\ c.signer = a.key /\ a.ca     \* name chaining, signature, issuer is a CA

\* strict reading: the supplied order is the certification path
Ordered(chain, A, t) ==
    /\ \A i \in 1..Len(chain) : InTime(chain[i], t)
    /\ \A i \in 1..(Len(chain) - 1) : Issues(chain[i + 1], chain[i])
    /\ LET last == chain[Len(chain)] IN
          \/ last \in A
          \/ \E a \in A : Issues(a, last) /\ InTime(a, t)

\* permissive reading: some certification path from the first certificate to an anchor can be built from the
\* supplied certificates in any order (what a path-building library does)
RECURSIVE PathFrom(_, _, _, _, _)
PathFrom(c, pool, A, t, fuel) ==
    /\ InTime(c, t)
    /\ \/ c \in A
       \/ \E a \in A : Issues(a, c) /\ InTime(a, t)
       \/ fuel > 0 /\ \E d \in pool : d # c /\ Issues(d, c) /\ PathFrom(d, pool \ {c}, A, t, fuel - 1)
Buildable(chain, A, t) == PathFrom(chain[1], {chain[i] : i \in 1..Len(chain)}, A, t, Len(chain))

Verdict(chain, A, t) ==
    IF Ordered(chain, A, t) THEN "accept"
    ELSE IF Buildable(chain, A, t) THEN "any"
    ELSE "reject"

\* chains: sequences without repetition whose first element is not a root (the credential's own certificate)
RECURSIVE SeqsNoRep(_, _)
SeqsNoRep(S, n) ==
    IF n = 0 THEN {<<>>}
    ELSE LET shorter == SeqsNoRep(S, n - 1) IN
         shorter \cup {Append(s, c) : s \in {x \in shorter : Len(x) = n - 1}, c \in S} 
Chains == {s \in SeqsNoRep(Universe, MaxLen) : Len(s) >= 1 /\ s[1] \notin Roots
                /\ \A i, j \in 1..Len(s) : i # j => s[i] # s[j]}
AnchorSets == {{ById("R")}, {ById("R2")}, {ById("R"), ById("R2")}}

Class(chain, A, t) ==
    IF Ordered(chain, A, t) THEN "valid"
    ELSE IF \E i \in 1..Len(chain) : ~InTime(chain[i], t) THEN "outside-validity"
    ELSE IF Buildable(chain, A, t) THEN "reordered-or-extra"
    ELSE IF \E i \in 1..(Len(chain) - 1) : chain[i].iss = chain[i + 1].subj /\ chain[i].signer # chain[i + 1].key THEN "wrong-signature"
    ELSE IF \E i \in 1..(Len(chain) - 1) : chain[i].iss = chain[i + 1].subj /\ ~chain[i + 1].ca THEN "non-ca-issuer"
    ELSE "no-path"

Cases == {[chain |-> [i \in 1..Len(s) |-> s[i].id], anchors |-> {a.id : a \in A}, t |-> t,
           verdict |-> Verdict(s, A, t), class |-> Class(s, A, t)] : s \in Chains, A \in AnchorSets, t \in Times}

VARIABLE done
Init == done = FALSE
Next == /\ ~done /\ done' = TRUE
        /\ PrintT(<<"UNIVERSE", ToJson({c : c \in Universe})>>)
        /\ \A c \in Cases : PrintT(<<"CASE", ToJson(c)>>)
Spec == Init /\ [][Next]_done

\* ---- direction 2: the table recorded by `verif-harness x509` (one row per case: the three validators' verdicts)
\* is validated against the reference, which TLC recomputes from the row's chain, anchors and time
Table == ndJsonDeserialize(IOEnv.X509_TABLE)
RowChain(r) == [i \in 1..Len(r.chain) |-> ById(r.chain[i])]
RowAnchors(r) == {ById(r.anchors[i]) : i \in 1..Len(r.anchors)}
RowOK(r) ==
    LET v == Verdict(RowChain(r), RowAnchors(r), r.t) IN
    /\ r.awslc = r.openssl /\ r.openssl = r.rustcrypto            \* the same verdict ...
    /\ r.awslc \in {"accept", "reject"}
    /\ (v = "any" \/ r.awslc = v)                                \* ... and the correct one
TInit == done = FALSE
TNext == /\ ~done /\ done' = TRUE
         /\ PrintT(<<"ROWS", Len(Table)>>)
         /\ \A i \in 1..Len(Table) : RowOK(Table[i]) \/
               PrintT(<<"BADROW", ToJson([chain |-> Table[i].chain, anchors |-> Table[i].anchors, t |-> Table[i].t,
                                          reference |-> Verdict(RowChain(Table[i]), RowAnchors(Table[i]), Table[i].t),
                                          class |-> Class(RowChain(Table[i]), RowAnchors(Table[i]), Table[i].t),
                                          awslc |-> Table[i].awslc, openssl |-> Table[i].openssl, rustcrypto |-> Table[i].rustcrypto])>>)
TraceSpec == TInit /\ [][TNext]_done

\* sanity theorems of the reference itself, checked by TLC on every case
RefSane ==
    \A s \in Chains, A \in AnchorSets, t \in Times :
        /\ (Ordered(s, A, t) => Buildable(s, A, t))                       \* the strict reading implies the permissive one
        /\ (Verdict(s, A, t) # "reject" => InTime(s[1], t))               \* an expired credential is never acceptable
        /\ (Verdict(s, A, t) # "reject" => \E a \in A : TRUE)
=============================================================================
