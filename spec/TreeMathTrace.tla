--------------------------- MODULE TreeMathTrace ---------------------------
(***************************************************************************)
(* Trace validation for C20: every row recorded from the implementation's  *)
(* tree arithmetic (through the verif_hooks re-export) is compared with    *)
(* the structural definitions of TreeMath.  One state per row; the         *)
(* invariant RowOK fails at the first row that disagrees.                  *)
(***************************************************************************)
EXTENDS TreeMath, Json, IOUtils, TLC, Integers

Rows == ndJsonDeserialize(IOEnv.TRACE)

VARIABLE l

Opt(b, v) == IF b THEN v ELSE -1

NodeRowOK(r) ==
    LET n == r.n  x == r.x IN
    /\ r.inTree = InTree(x, n)
    /\ r.root = Root(n)
    /\ IF ~InTree(x, n)
       THEN Len(r.dcp) = 0              \* outside the tree: reported as such
       ELSE /\ r.leaf = IsLeafNode(x)
            /\ r.left = Opt(~IsLeafNode(x), IF IsLeafNode(x) THEN 0 ELSE Left(x, n))
            /\ r.right = Opt(~IsLeafNode(x), IF IsLeafNode(x) THEN 0 ELSE Right(x, n))
            /\ r.parent = Opt(~IsRoot(x, n), IF IsRoot(x, n) THEN 0 ELSE Parent(x, n))
            /\ r.sibling = Opt(~IsRoot(x, n), IF IsRoot(x, n) THEN 0 ELSE Sibling(x, n))
            /\ LET dp == DirectPath(x, n)  cp == Copath(x, n) IN
               /\ Len(r.dcp) = Len(dp)
               /\ \A i \in 1..Len(dp) : r.dcp[i][1] = dp[i] /\ r.dcp[i][2] = cp[i]
            /\ r.sub[1] = SubtreeLeaves(x, n)[1]
            /\ r.sub[2] = SubtreeLeaves(x, n)[2]

PairRowOK(r) ==
    LET lvl == LcaLevel(r.a, r.b, r.n) IN
    /\ r.lvlLeaf = lvl
    /\ r.lvlNode = (IF r.a = r.b THEN 0 ELSE lvl + 1)

BfsRowOK(r) ==
    LET b == Bfs(r.n) IN
    /\ Len(r.order) = Len(b)
    /\ \A i \in 1..Len(b) : r.order[i] = b[i]

BoundRowOK(r) == r.ok = (r.x <= 16777215)

RowOK ==
    l <= Len(Rows) =>
        LET r == Rows[l] IN
        CASE r.k = "node" -> NodeRowOK(r)
          [] r.k = "pair" -> PairRowOK(r)
          [] r.k = "bfs"  -> BfsRowOK(r)
          [] r.k = "bound" -> BoundRowOK(r)
          [] OTHER -> FALSE

Init == l = 1
Next == l <= Len(Rows) /\ l' = l + 1
Spec == Init /\ [][Next]_l

AllConsumed == TLCGet("stats").diameter = Len(Rows) + 1 \/ PrintT(<<"NOT-CONSUMED", TLCGet("stats").diameter, Len(Rows)>>) = FALSE
=============================================================================
