----------------------------- MODULE CodecTrace -----------------------------
(***************************************************************************)
(* Trace validation for C12: rows recorded from mls-rs-codec / MlsMessage   *)
(* decoders are compared with the reference decoders of Codec.tla and the   *)
(* reference verdicts of WireSchema.tla.                                    *)
(*   prim rows: one byte string from the exhaustive small domain with the   *)
(*              implementation's result for every primitive decoder         *)
(*   msg rows : one (authentic or mutated) MLSMessage byte string with the  *)
(*              implementation's accept / reject                            *)
(***************************************************************************)
EXTENDS WireSchema, Json, IOUtils, TLC

Rows == ndJsonDeserialize(IOEnv.TRACE)
VARIABLE l

Same(ref, got, scalar) ==
    /\ got.ok = ref.ok
    /\ ref.ok => /\ got.n = ref.p - 1                       \* bytes consumed
                 /\ (IF scalar THEN got.v = ref.v
                     ELSE Len(got.v) = Len(ref.v) /\ \A i \in 1..Len(ref.v) : got.v[i] = ref.v[i])

PrimOK(r) ==
    LET b == r.s IN
    /\ Same(VarInt(b, 1), r.varint, TRUE)
    /\ Same(U16(b, 1), r.u16, TRUE)
    /\ Same(U32(b, 1), r.u32, FALSE)
    /\ Same(Opaque(b, 1), r.opaque, FALSE)
    /\ Same(VectorFixed(b, 1, 2), r.vec16, FALSE)
    /\ Same(OptionalU8(b, 1), r.opt8, FALSE)

MsgOK(r) ==
    LET v == Verdict(r.s) IN
    /\ (v = "accept" => r.accepted)
    /\ (v = "reject" => ~r.accepted)

EncOK(r) ==     \* encoder side: the length header written for n is the shortest form
    LET e == EncVarInt(r.n) IN Len(r.enc) = Len(e) /\ \A i \in 1..Len(e) : r.enc[i] = e[i]

RowOK ==
    l <= Len(Rows) =>
        LET r == Rows[l] IN
        CASE r.k = "prim" -> PrimOK(r)
          [] r.k = "msg" -> MsgOK(r)
          [] r.k = "enc" -> EncOK(r)
          [] OTHER -> FALSE

Init == l = 1
Next == l <= Len(Rows) /\ l' = l + 1
Spec == Init /\ [][Next]_l
=============================================================================
