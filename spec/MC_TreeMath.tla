---------------------------- MODULE MC_TreeMath ----------------------------
(* Self-consistency of the structural definitions for all n = 2^k <= MaxN:  *)
(* checked by TLC as ASSUMEs (there is no behaviour, only a table).         *)
EXTENDS TreeMath, TLC
CONSTANT MaxLog

Sizes == {Pow2(k) : k \in 0..MaxLog}
NodesOf(n) == 0..(NodeWidth(n) - 1)

ASSUME \A n \in Sizes : \A x \in NodesOf(n) :
    /\ ~IsLeafNode(x) => /\ Parent(Left(x, n), n) = x
                         /\ Parent(Right(x, n), n) = x
                         /\ Sibling(Left(x, n), n) = Right(x, n)
                         /\ Left(x, n) < x /\ x < Right(x, n)
                         /\ Level(Left(x, n), n) = Level(x, n) - 1
    /\ IsLeafNode(x) <=> Level(x, n) = 0
    /\ ~IsRoot(x, n) => x \in {Left(Parent(x, n), n), Right(Parent(x, n), n)}
    /\ Len(DirectPath(x, n)) = Log2(n) - Level(x, n)
    /\ Len(Copath(x, n)) = Len(DirectPath(x, n))
    /\ Cardinality(LeavesUnder(x, n)) = Pow2(Level(x, n))

ASSUME \A n \in Sizes : \A a, b \in 0..(n - 1) :
    LET c == CommonAncestor(a, b, n) IN
    /\ a \in LeavesUnder(c, n) /\ b \in LeavesUnder(c, n)
    /\ a # b => ~(a \in LeavesUnder(Left(c, n), n) /\ b \in LeavesUnder(Left(c, n), n))
    /\ a # b => ~(a \in LeavesUnder(Right(c, n), n) /\ b \in LeavesUnder(Right(c, n), n))

ASSUME \A n \in Sizes : LET b == Bfs(n) IN
    /\ Len(b) = NodeWidth(n)
    /\ {b[i] : i \in 1..Len(b)} = NodesOf(n)
    /\ \A i \in 1..(Len(b) - 1) : Level(b[i], n) >= Level(b[i + 1], n)

VARIABLE dummy
Init == dummy = 0
Next == UNCHANGED dummy
=============================================================================
