SPECIFICATION Spec
CONSTANTS
  MaxLen = 4
  Times = {5, 9, 10, 11, 19, 20, 21, 29, 30, 31, 50, 69, 70, 71, 79, 80, 81, 89, 90, 91, 99, 100, 101, 99999}
INVARIANT RefSane
CHECK_DEADLOCK FALSE
