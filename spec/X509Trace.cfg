SPECIFICATION TraceSpec
CONSTANTS
  MaxLen = 3
  Times = {50}
CHECK_DEADLOCK FALSE
