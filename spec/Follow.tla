---------------------------- MODULE Follow ----------------------------
(***************************************************************************)
(* Direction 2 of the binding: a sequence of API calls (action, party,     *)
(* arguments) that was recorded elsewhere -- by the harness's random       *)
(* driver running the real library, or in a stored replay of a finding --  *)
(* is followed through the specification.  TLC accepts the sequence step    *)
(* by step (a step whose action with these arguments is not enabled in     *)
(* MlsGroup.tla ends the run: "not a behaviour of the specification") and  *)
(* prints the specification's behaviour for it: outcome, output and        *)
(* projection of every step, which bin/follow compares with the outcomes   *)
(* recorded from the implementation and hands to the replayer.             *)
(***************************************************************************)
EXTENDS MC_core, IOUtils

\* one TLC run follows a whole file of recorded sequences: each is its own initial state (variable bi)
VARIABLE bi
Behs == ndJsonDeserialize(IOEnv.FOLLOW_FILE)
Beh == Behs[bi]
Steps == Beh.steps

FInit ==
    /\ bi \in 1..Len(Behs)
    /\ Init
    /\ opt = [pathReq |-> Beh.cfg.pathReq, enc |-> Beh.cfg.enc, jit |-> Beh.cfg.jit]
    /\ \A p \in Parties : \A id \in PskIds : pskStore[p][id] = Beh.cfg.psk[p][id]

Match(h, st) == h.a = st.a /\ h.p = st.p /\ h.args = st.args

\* the action the recorded step names, with the recorded arguments (one successor per step, no enumeration)
Member(st) ==
    LET p == st.p  ar == st.args IN
    CASE st.a = "GenKeyPackage" -> (IF ar.bad # "" THEN GenBadKeyPackage(p, ar.bad) ELSE (GenKeyPackage(p, ar.lr) \/ (~ar.lr /\ GenSuccKeyPackage(p))))
      [] st.a = "Propose" ->
            (CASE ar.kind = "add" -> ProposeAdd(p, ar.kp)
               [] ar.kind = "rem" -> ProposeRemove(p, ar.target)
               [] ar.kind = "upd" -> ProposeUpdate(p)
               [] ar.kind = "psk" -> ProposePsk(p, ar.id)
               [] ar.kind = "rpsk" -> ProposeResumptionPsk(p, ar.pe)
               [] ar.kind = "gce" -> ProposeGce(p, ar.ver \div 1000)
               [] ar.kind = "custom" -> ProposeCustom(p)
               [] ar.kind = "reinit" -> ProposeReinit(p))
      [] st.a = "DeliverProposal" -> DeliverProposal(p, ar.prop)
      [] st.a = "Commit" -> Commit(p, ar.byval, FALSE)
      [] st.a = "CommitDetached" -> Commit(p, ar.byval, TRUE)
      [] st.a = "ClearPending" -> ClearPending(p)
      [] st.a = "DsChoose" -> DsChoose(ar.commit)
      [] st.a = "ApplyPending" -> ApplyPending(p)
      [] st.a = "DeliverCommit" -> DeliverCommit(p, ar.commit)
      [] st.a = "JoinWelcome" -> JoinWelcome(p, ar.commit)
      [] st.a = "Retire" -> Retire(p)
      [] st.a = "Encrypt" -> Encrypt(p, ar.k)
      [] st.a = "DeliverApp" -> DeliverApp(p, ar.app, ar.gen)
      [] st.a = "Write" -> Write(p)
      [] st.a = "Load" -> Load(p)
      [] st.a = "ApplyDetached" -> ApplyDetached(p, ar.commit)
      [] st.a = "ExternalCommit" -> ExternalCommit(p, ar.from, ar.resync)
      [] st.a = "NewMemberPropose" -> NewMemberPropose(p, ar.from)
      [] OTHER -> FALSE

Succ(st) ==
    LET p == st.p  ar == st.args IN
    CASE st.a = "SuccCreate" -> SuccCreate(ar.kind, p, {ar.kps[i] : i \in 1..Len(ar.kps)}, ar.tweak)
      [] st.a = "SuccJoin" -> SuccJoin(p, ar.succ, ar.how)
      [] st.a = "SuccForge" -> SuccForge(ar.kind, p, ar.like, {ar.kps[i] : i \in 1..Len(ar.kps)})
      [] OTHER -> FALSE

Obs(st) ==
    LET ar == st.args IN
    CASE st.a = "ObsJoin" -> ObsJoin(ar.from)
      [] st.a = "ObsDeliverProposal" -> ObsDeliverProposal(ar.prop)
      [] st.a = "ObsDeliverCommit" -> ObsDeliverCommit(ar.commit)
      [] st.a = "ObsDeliverApp" -> ObsDeliverApp(ar.app, ar.gen)
      [] st.a = "ObsSnapshotRestore" -> ObsSnapshotRestore
      [] st.a = "ObsPropose" -> ObsPropose(ar.kind, ar.arg)
      [] OTHER -> FALSE

Directed(st) ==
    IF st.a \in {"SuccCreate", "SuccJoin", "SuccForge"} THEN Succ(st) /\ UNCHANGED obs
    ELSE IF st.p = "observer" THEN Obs(st) /\ UNCHANGED succ
    ELSE IF st.a = "GenKeyPackage" THEN Member(st) /\ UNCHANGED obs /\ succ' = succ
    ELSE Member(st) /\ UNCHANGED <<obs, succ>>

FNext ==
    /\ Len(hist) < Len(Steps)
    /\ Logged(Directed(Steps[Len(hist) + 1]))
    /\ Match(hist'[Len(hist')], Steps[Len(hist) + 1])
    /\ bi' = bi

FSpec == FInit /\ [][FNext]_<<vars, bi>>

\* one line per followed prefix (the longest is the accepted prefix), and the whole behaviour at the end
FEmit ==
    /\ PrintT(<<"FOLLOWED", bi, Len(hist)>>)
    /\ (Len(hist) = Len(Steps)) =>
          PrintT(<<"REPLAY", ToJson([bi |-> bi, cfg |-> [pathReq |-> opt.pathReq, enc |-> opt.enc, jit |-> opt.jit, retention |-> Retention, window |-> Window,
                                               psk |-> pskStore, parties |-> Parties, creator |-> Creator, capX |-> CapX, capY |-> CapY, features |-> Features],
                                      steps |-> [i \in 1..Len(hist) |-> hist[i] @@ [aux |-> haux[i]]]])>>)
=============================================================================
