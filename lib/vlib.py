"""Common machinery for /verif/bin/check: build, TLC, evidence, known findings."""
import json, os, re, subprocess, sys, time, shutil, hashlib

VERIF = os.path.dirname(os.path.dirname(os.path.abspath(__file__)))
REPO = os.environ.get("VERIF_REPO", "/repo")
HARNESS = os.path.join(VERIF, "harness")
HBIN = os.path.join(HARNESS, "target", "debug", "verif-harness")
SPEC = os.path.join(VERIF, "spec")
WORK = os.path.join(VERIF, "work")
EVID = os.path.join(VERIF, "evidence")
TLA_JAR = "/opt/veriftools/tla/tla2tools.jar"


class ToolError(Exception):
    pass


class Violation(Exception):
    def __init__(self, prop, what, replay=None, key=None):
        super().__init__(what)
        self.prop, self.what, self.replay, self.key = prop, what, replay, key


def log(*a):
    print("[check]", *a, file=sys.stderr, flush=True)


def sh(cmd, timeout=None, env=None, cwd=None, check=False):
    e = dict(os.environ)
    if env:
        e.update(env)
    t0 = time.time()
    try:
        p = subprocess.run(cmd, shell=isinstance(cmd, str), stdout=subprocess.PIPE, stderr=subprocess.STDOUT,
                           timeout=timeout, env=e, cwd=cwd, text=True, errors="replace")
    except subprocess.TimeoutExpired as ex:
        out = ex.stdout if isinstance(ex.stdout, str) else (ex.stdout or b"").decode("utf8", "replace")
        raise ToolError(f"timeout after {timeout}s: {cmd}\n{out[-2000:]}")
    if check and p.returncode != 0:
        raise ToolError(f"command failed rc={p.returncode}: {cmd}\n{p.stdout[-4000:]}")
    return p.returncode, p.stdout, time.time() - t0


_built = False


def build_harness():
    """(Re)build the harness against /repo's current working tree, hooks enabled."""
    global _built
    if _built:
        return
    lock_src = os.path.join(REPO, "Cargo.lock")
    lock_dst = os.path.join(HARNESS, "Cargo.lock")
    if not os.path.exists(lock_dst):
        shutil.copy(lock_src, lock_dst)
    env = {"CARGO_NET_OFFLINE": "true", "CARGO_TERM_COLOR": "never"}
    import fcntl
    os.makedirs(WORK, exist_ok=True)
    with open(os.path.join(WORK, ".build.lock"), "w") as lk:
        fcntl.flock(lk, fcntl.LOCK_EX)
        rc, out, dt = sh(["cargo", "build", "--offline", "--quiet"], cwd=HARNESS, env=env, timeout=3600)
    if rc != 0:
        raise ToolError("harness build failed:\n" + out[-6000:])
    log(f"harness built in {dt:.1f}s")
    _built = True


def harness(args, timeout=3600, env=None, stdin=None):
    """Run the harness binary; returns (rc, stdout)."""
    build_harness()
    e = dict(os.environ)
    e.setdefault("RUST_BACKTRACE", "0")
    if env:
        e.update(env)
    try:
        p = subprocess.run([HBIN] + [str(a) for a in args], stdout=subprocess.PIPE, stderr=subprocess.PIPE,
                           timeout=timeout, env=e, text=True, errors="replace", input=stdin)
    except subprocess.TimeoutExpired:
        raise ToolError(f"harness timeout after {timeout}s: {args}")
    if p.returncode not in (0, 1):
        raise ToolError(f"harness rc={p.returncode} args={args}\n{p.stderr[-4000:]}\n{p.stdout[-2000:]}")
    return p.returncode, p.stdout, p.stderr


def last_json(out):
    for line in reversed(out.strip().splitlines()):
        line = line.strip()
        if line.startswith("{"):
            try:
                return json.loads(line)
            except Exception:
                continue
    raise ToolError("no JSON summary in harness output:\n" + out[-2000:])


class TlcResult:
    def __init__(self, rc, out, wall):
        self.rc, self.out, self.wall = rc, out, wall
        m = re.search(r"(\d+) states generated, (\d+) distinct states found", out)
        self.generated = int(m.group(1)) if m else 0
        self.distinct = int(m.group(2)) if m else 0
        m = re.search(r"The depth of the complete state graph search is (\d+)", out)
        self.depth = int(m.group(1)) if m else 0
        self.ok = rc == 0 and "No error has been found" in out
        self.invariant = None
        m = re.search(r"Invariant (\S+) is violated", out)
        if m:
            self.invariant = m.group(1)
        m = re.search(r"Action property (\S+) is violated", out)
        if m:
            self.invariant = m.group(1)
        self.prints = re.findall(r'^<<"([A-Z-]+)", ?(.*)>>$', out, flags=re.M)

    def coverage_zero_actions(self):
        """names of actions that were never taken (needs -coverage 1)."""
        zero = []
        for m in re.finditer(r"<(\w+) line \d+, col \d+ to line \d+, col \d+ of module (\w+)>: (\d+):(\d+)", self.out):
            if int(m.group(4)) == 0 and m.group(1) not in ("Init",):
                zero.append(m.group(1))
        return sorted(set(zero))


def tlc(module, cfg=None, workers=4, timeout=900, env=None, simulate=None, depth=None, extra=None,
        xss="1g", xmx="8g", deque=False, coverage=False, name=None, seed=None):
    """Run TLC on spec/<module>.tla with spec/<cfg>.cfg."""
    name = name or (cfg or module)
    meta = os.path.join(WORK, "tlc", f"{name}-{os.getpid()}")
    shutil.rmtree(meta, ignore_errors=True)
    os.makedirs(meta, exist_ok=True)
    jopts = f"-Xss{xss} -Xmx{xmx} -XX:+UseParallelGC"
    if deque:
        jopts += " -Dtlc2.tool.queue.IStateQueue=StateDeque"
    cmd = ["java"] + jopts.split() + ["-cp", TLA_JAR + ":/opt/veriftools/tla/CommunityModules-deps.jar", "tlc2.TLC"]
    cmd = ["tlc"]  # wrapper on PATH already sets the classpath (CommunityModules included)
    cmd += ["-workers", str(workers), "-metadir", meta, "-cleanup", "-noGenerateSpecTE"]
    if coverage:
        cmd += ["-coverage", "1"]
    if simulate:
        cmd += ["-simulate", simulate]
        if depth:
            cmd += ["-depth", str(depth)]
    if seed is not None:
        cmd += ["-seed", str(seed)]
    if extra:
        cmd += extra
    cmd += ["-config", os.path.join(SPEC, (cfg or module) + ".cfg"), os.path.join(SPEC, module + ".tla")]
    e = {"JAVA_TOOL_OPTIONS": jopts}
    if env:
        e.update({k: str(v) for k, v in env.items()})
    try:
        rc, out, wall = sh(cmd, timeout=timeout, env=e, cwd=SPEC)
    finally:
        shutil.rmtree(meta, ignore_errors=True)
    return TlcResult(rc, out, wall)


def known_findings():
    p = os.path.join(VERIF, "known_findings.json")
    if not os.path.exists(p):
        return {"known": [], "fixed": []}
    return json.load(open(p))


def write_evidence(prop, tier, seed, level, coverage, wall, violations=0, assumptions=None):
    os.makedirs(EVID, exist_ok=True)
    ev = {"property_id": prop, "tier": tier, "seed": int(seed), "level": level, "coverage": coverage,
          "assumptions": assumptions or [], "wall_s": round(wall, 2), "violations": int(violations)}
    tmp = os.path.join(EVID, f".{prop}.json.tmp")
    json.dump(ev, open(tmp, "w"), indent=1, sort_keys=True, default=str)
    os.replace(tmp, os.path.join(EVID, f"{prop}.json"))


def replay_path(prop, tag):
    d = os.path.join(WORK, "replay")
    os.makedirs(d, exist_ok=True)
    return os.path.join(d, f"{prop}-{tag}.json")


def workdir(prop):
    d = os.path.join(WORK, prop)
    os.makedirs(d, exist_ok=True)
    return d
