HOOK_COMMITS = ["69b5feac", "e0ac4262", "25d0ef61", "e48a585e", "6bb38e96"]
FIX_COMMITS = ["1d9ec378", "304105e7", "df3a2e6c", "f7361866", "4009b9f0", "f51e7edb", "ccff1f53", "d86e4171", "5461825f", "eb1c672c", "18c59c44", "814903cd", "e65909a8", "54e4999c", "ce5ab177", "0593a161", "b1ee6dd3"]
ENGINES = [
    {"name": "tlc+harness", "path": "/verif/bin/check", "serves_properties": ["C01", "C02", "C04", "C05", "C06", "C07", "C08", "C09", "C10", "C11", "C12", "C13", "C14", "C15", "C16", "C17", "C18", "C19", "C20", "C03"],
     "kind_free_text": "explicit TLA+ specification (spec/*.tla) checked with TLC; bound to the Rust code by a harness crate "
                       "(/verif/harness) that replays TLC-generated behaviours into mls-rs and records traces validated by TLC"},
]
NOTES = ("Every claimed property is decided through the TLA+ specification in /verif/spec (TLC) bound to the implementation "
         "by /verif/harness. See DESIGN.md. Exit codes of bin/check: 0 held, 1 VIOLATION, 2 tool error.")
CHECKS = [
    {"id": "C20", "category": "model_checking",
     "text": "TLC evaluates the structural (recursive, bit-trick free) RFC 9420 App. C definitions of TreeMath.tla and validates a table "
             "recorded from the real functions: every node of every tree 2^0..2^12 plus out-of-tree indices, all leaf pairs up to 2^7/2^9, "
             "seeded samples up to 2^24. A pure function table is the whole behaviour here, so table validation is the right level.",
     "note": "trusts TLC's evaluator and the hook re-export; pairs above 2^9 leaves and sizes above 2^12 are sampled",
     "technique": "TLA+ reference definitions + TLC trace validation of an implementation-recorded table"},
]

_CORE = "explicit TLA+ state machine (MlsGroup.tla) model-checked with TLC; TLC-simulated behaviours replayed into real mls-rs groups with projection comparison after every step"
CHECKS += [
    {"id": "C01", "category": "model_checking", "technique": _CORE,
     "text": "TLC checks Agreement / EpochIsChainLength / NoDecapFailure on every reachable state of a bounded instance and generates long random behaviours (adds, updates, removes, by-value and by-reference, racing commits, stale deliveries, joins); each is replayed into the library with a random suite / provider mix / commit options, comparing epoch, tree (node by node through a key bijection), private-key positions, cache, pending flag, and checking byte-equality of context, tree, authenticator, exported secrets and mutual decryption among all members the model puts in one epoch.",
     "note": "trusts TLC, the symbolic crypto abstraction, and the harness projection; exhaustive only for the bounded instance (3 parties), larger instances by weighted simulation; by-reference adds/removes limited to one per epoch/leaf in generated behaviours"},
    {"id": "C02", "category": "model_checking", "technique": _CORE + "; recording crypto provider for HPKE recipients",
     "text": "Model invariant RecipientsEntitled plus, on the implementation, the multiset of public keys of every hpke_seal issued while a commit is built (recording CipherSuiteProvider) must equal the model's copath-resolution recipients (new tree, minus leaves added by the commit) and the init keys of the added key packages; retained groups of removed members are fed all later traffic and must reject it unchanged.",
     "note": "trusts TLC, the symbolic crypto abstraction, and the harness projection; exhaustive only for the bounded instance (3 parties), larger instances by weighted simulation; by-reference adds/removes limited to one per epoch/leaf in generated behaviours"},
    {"id": "C07", "category": "model_checking", "technique": _CORE,
     "text": "Welcome joins are ordinary actions of the model (joiner placed in leftmost blank, under unmerged leaves, with and without path); the joiner's projected state, private keys and concrete agreement/cross-decryption with the members are compared after every join.",
     "note": "trusts TLC, the symbolic crypto abstraction, and the harness projection; exhaustive only for the bounded instance (3 parties), larger instances by weighted simulation; by-reference adds/removes limited to one per epoch/leaf in generated behaviours; key-package deletion and mismatched Welcomes are covered by the storage extension when built"},
    {"id": "C08", "category": "model_checking", "technique": _CORE + "; independent tree-hash recomputation and ExternalClient validation",
     "text": "Model invariant TreesValid on every member's copy; on the implementation every member's exported tree is compared node by node with the model's tree after every step, its tree hash is recomputed from the exported nodes by harness code that shares nothing with the library's incremental cache, and tree + signed GroupInfo must be accepted by ExternalClient::observe_group (the joiner's from-scratch validation).",
     "note": "trusts TLC, the symbolic crypto abstraction, and the harness projection; exhaustive only for the bounded instance (3 parties), larger instances by weighted simulation; by-reference adds/removes limited to one per epoch/leaf in generated behaviours; the recomputation encodes nodes with the library's MlsEncode of the public node types"},
    {"id": "C09", "category": "model_checking", "technique": _CORE + "; HPKE probe of every stored private key",
     "text": "Model invariant PrivMatchesPub; on the implementation (verif_private_keys hook) the set of direct-path positions holding a key must equal the model's after every step, every stored key must open an HPKE seal to the public key at that node of the exported tree, none may sit at a blank node, and path keys must be fresh (bijection).",
     "note": "trusts TLC, the symbolic crypto abstraction, and the harness projection; exhaustive only for the bounded instance (3 parties), larger instances by weighted simulation; by-reference adds/removes limited to one per epoch/leaf in generated behaviours"},
]

CHECKS += [
    {"id": "C04", "category": "model_checking", "technique": _CORE + "; full-state comparison (verif_state hook) around every rejected call",
     "text": "In the model every err branch is UNCHANGED; on the implementation the complete member state (all snapshot components, epoch secrets, repository queues) is compared before/after every call that returns an error in behaviours containing stale, replayed, out-of-window, unknown-epoch, missing-proposal, invalid by-value and racing operations, and the behaviour continues so the genuine messages must still be accepted.",
     "note": "see C01; byte-level corruption classes are exercised by the C03 check when built"},
    {"id": "C05", "category": "model_checking", "technique": _CORE + "; ratchet model with window, recording provider (key, nonce) monitor",
     "text": "Per-sender ratchets with out-of-order window, bursts (1, 2, 3, 1024, 1025, 1026 generations), duplicates, late delivery and reloads are modelled; TLC checks NoGenerationReuse / AtMostOnce; every delivery outcome of the implementation must equal the model's (ok / replay / beyond window / epoch gone) and the recording provider must never see the same (key, nonce) in two content encryptions.",
     "note": "see C01"},
    {"id": "C06", "category": "model_checking", "technique": _CORE + "; Write/Load actions, both storage providers",
     "text": "Write and Load (crash + reload) are actions that may occur at any point of a behaviour; the loaded group must equal the written one component by component, the repository queues and stored epoch ids must equal the model after every step, and every behaviour is executed with the in-memory and with the SQLite provider (ProvidersAgree is also a model invariant over the two trimming rules).",
     "note": "see C01; SQLite's own atomicity is trusted"},
    {"id": "C11", "category": "model_checking", "technique": _CORE + "; pending / detached commit machine",
     "text": "Commit, CommitDetached, ClearPending, ApplyPending, ApplyDetached, own echo, foreign commit and delivery-service choice for racing members are exhaustively explored (MC_pending) and simulated; building a commit must change nothing but the pending commit, stale detached commits must be rejected, and all routes to an epoch must yield the same state.",
     "note": "see C01"},
    {"id": "C15", "category": "fault_enumeration", "technique": _CORE + "; enumeration of every failing storage call of every replayed operation",
     "text": "For every storage-touching step of every behaviour the k-th storage call is made to fail for every k: the attempt must return an error and leave member state, pending commit and stored history unchanged; the retry is the step proper and is compared with the model (state, queues, stored epochs).",
     "note": "see C01; faults are transient and single (pairs in thorough)"},
    {"id": "C19", "category": "model_checking", "technique": _CORE + "; prior-epoch lookup and retention model",
     "text": "Late application messages of every age are delivered under retention 1, 2 and 3 with writes and reloads interleaved, on both providers: the implementation must decrypt exactly when the model's FindPrior finds the epoch (pending inserts, loaded updates, storage) and the sender's leaf still carries the sender's identity; stored epoch ids must equal the model.",
     "note": "see C01"},
]

CHECKS += [
    {"id": "C10", "category": "model_checking", "technique": "TLA+ model of the RFC 9420 12.2 rule set with both filter strategies: exhaustive input enumeration in TLC (MC_props.tla) + replay of proposal-rich behaviours into mls-rs",
     "text": "ApplyProposals models apply_resolved/batch_edit with the sender strategy (drop by-reference offenders) and the receiver strategy (fail); TLC enumerates every proposal list of length <= 3 (thorough 4) over 29 proposal variants x 3 committers and checks that what the sender keeps every receiver accepts to the same tree, that the kept list is legal, that by-value offenders fail the build and by-reference ones are dropped; behaviours with add/update/remove/PSK/resumption-PSK/GCE/re-init proposals, expired and identity-rejected key packages and same-leaf conflicts are replayed comparing build result, unused proposals, path flag, every receiver's outcome and tree. Known finding F12 is reported as KNOWN-FINDING.",
     "note": "see C01; hash-map order of the proposal cache: at most one by-reference add / GCE per epoch and one by-reference remove or update per leaf in generated behaviours; custom proposals, external senders and new-member proposals are not generated yet"},
    {"id": "C18", "category": "model_checking", "technique": _CORE + "; per-party PSK stores drawn by TLC",
     "text": "Each behaviour fixes which party holds which value (none / a / b) for each external PSK id; commits inject external and resumption PSKs by value and by reference; exactly the members holding the committer's values and retaining the referenced epochs must reach the new epoch (same authenticator through the bijection), all others must reject with unchanged state; joiners need the same PSKs.",
     "note": "see C01; sensitivity of the secret to nonce/order is covered only through agreement classes (two commits never share a secret id)"},
]

CHECKS += [
    {"id": "C12", "category": "model_checking", "technique": "TLA+ reference grammar (Codec.tla, WireSchema.tla) + TLC trace validation of decoder tables and accept/reject verdicts; robustness oracles in the harness",
     "text": "Codec.tla is a reference decoder for the RFC 9420 presentation language (uintN, shortest-form variable-length integers, opaque<V>, vector<V>, optional); every byte string of length <= 3 (thorough 4) over a boundary alphabet is decoded by the implementation's primitives and TLC compares value and consumed length; the complete schemas of all five wire formats (PublicMessage with Proposal / Commit / UpdatePath bodies, PrivateMessage, Welcome, GroupInfo, KeyPackage with LeafNode, Credential, Capabilities, Extension lists) give an exact accept/reject oracle for authentic and mutated messages; all inputs (authentic, truncated, boundary-valued, non-minimal prefixes, random) are decoded under catch_unwind with a counting allocator and must re-encode to the consumed bytes with mls_encoded_len equal to the written length.",
     "note": "universal statements over all byte strings / all values are sampled; the grammar follows mls-rs where it is stricter than the RFC (leaf indices below 2^24, no duplicate extension type in a list, reserved proposal type 0); stored snapshots are covered by the size stage and the round-trip oracles, not by a grammar"},
    {"id": "C13", "category": "model_checking", "technique": "TLA+ transcription of the RFC 9420 derivation graph (KeySchedule.tla) + TLC validation of provenance trees recorded from the crypto provider",
     "text": "A recording CipherSuiteProvider logs every kdf_extract / kdf_expand / hash / mac while real groups run seeded scenarios; for every API-visible value (epoch authenticator, exported secret, message key and nonce given to aead_seal, confirmed transcript hash) the harness emits the tree of recorded calls that produced it, knowing nothing about the formulas; TLC matches each tree against KeySchedule.tla: label strings with the MLS 1.0 prefix, contexts, both length fields, Extract salt/ikm roles, PSK index/count chain, secret-tree left/right positions (TreeMath), ratchet generations. Every recorded call is also re-evaluated with the other shipped providers.",
     "note": "primitives trusted as functions; values produced before recording starts (creation epoch) or received through HPKE are accepted as inputs; besides API-visible values, claims are made for provider *calls*: the key of every MAC (confirmation / membership), the key and nonce of every AEAD seal (message key, sender-data key, welcome key) and the input of every KEM key derivation (TreeKEM node secrets along the path-secret chain, external key pair) must have the RFC derivation shape"},
]

CHECKS += [
    {"id": "C03", "category": "model_checking", "technique": _CORE + "; byte-level tamper probe (bit flips, truncations, splices) of every delivered message against a clone of the receiver",
     "text": "In MlsGroup.tla a member accepts only messages of the delivery-service log for its own epoch secret (registry ids; epoch, own-message and replay guards) -- stale, cross-epoch and replayed authentic messages are behaviour steps with model verdicts. Every other byte string has the verdict 'reject': before each authentic DeliverProposal / DeliverCommit / DeliverApp / JoinWelcome of every replayed behaviour, modified copies (random single-bit flips, truncations, splices with other authentic messages of the same kind, Welcomes of other commits, modified out-of-band trees) are offered to a clone of the receiver in exactly that state; each must be rejected without panic and leave the complete member state unchanged (a Welcome modified outside the joiner's own part may instead yield the identical group). Accepted messages are checked for true sender, payload and authenticated data.",
     "note": "byte positions are sampled (quick: 8 flips per message, thorough: 60; --tamper-exhaustive for all positions of messages <= 1500 bytes); the insider model (a member re-signing structurally invalid content) is not covered because it needs a signing hook inside the library; external-commit GroupInfo tampering is not generated"},
    {"id": "C16", "category": "model_checking", "technique": _CORE + "; observer actions replayed into a real ExternalClient/ExternalGroup",
     "text": "Obs* actions of MlsGroup.tla model an external observer that starts from any member's GroupInfo at any epoch, follows proposals and commits with the members' rule set minus secrets, and lets application ciphertexts through iff their epoch >= max(0, epoch - jitter) for jitter in {unset, 0, 1, 2, 1000}; TLC checks ObserverTracks exhaustively on a bounded instance; generated behaviours are replayed into a real ExternalGroup under catch_unwind comparing outcome, epoch, extensions, tree, proposal cache with the model and group context, roster and exported tree bytes with every real member of the same epoch, with snapshot/restore at model-chosen points.",
     "note": "see C01; proposals issued by the observer as an external sender and external commits are not generated yet; encrypted handshake messages are modelled but not in the generated configuration"},
]

CHECKS += [
    {"id": "C17", "category": "model_checking", "technique": _CORE + "; successor-group actions (SuccCreate / SuccJoin) replayed through ReinitClient, Group::branch, join_subgroup",
     "text": "After a re-init commit the model freezes the group (TLC: FrozenNeverAdvances); successor creation succeeds exactly when key-package owners + creator equal the old member identities (re-init, whatever the old tree's shape) or are a subset (branch) (TLC: SuccessorsLegal); joining succeeds exactly for an invited party that holds the old group in the epoch the successor was created from and uses the matching API. Generated behaviours (trees with blank interior leaves, exact / smaller / larger member sets, joins through the right and wrong API, plain Client::join_group, members in other epochs) are replayed; outcome class, epoch 1, member identities, group id, extensions, and creator/joiner agreement (context, tree, authenticator, application message) are compared.",
     "note": "see C01; cipher-suite / version change on re-init and identity (credential) changes between old and new leaves are not generated; mismatched Welcomes are limited to wrong kind / wrong epoch / no old state"},
]

CHECKS += [
    {"id": "C14", "category": "model_checking", "technique": "TLA+ contract (CryptoContract.tla) and TLA+ reference semantics of X.509 chain validation (X509.tla): TLC enumerates the certificate-chain cases and validates the tables recorded from all three providers; mixed-provider groups through the core specification's replays",
     "text": "Primitives: for every cipher suite two providers share, a table with one row per (operation, input) -- hash, MAC, HKDF extract/expand, AEAD seal/open, KEM derivation at empty / block-boundary / long inputs; signatures, signature public-key derivation, HPKE base and PSK mode and HPKE contexts for every ordered provider pair; wrong tags, wrong key / nonce lengths, malformed and off-curve public keys, other info / PSK -- is checked by TLC against CryptoContract.tla (same status and bytes for deterministic operations, success for valid cross-provider use, rejection by everybody for invalid inputs, coverage of every operation per suite). X.509: TLC enumerates all chains of <= 3 (thorough 4) certificates over an 11-certificate universe x 3 anchor sets x 17 validation times around every validity boundary with a reference verdict; the harness builds real certificates and records the three validators' verdicts; TLC recomputes the reference per recorded row and demands agreement and, where the reference is not 'any', correctness. Mixed-provider groups: core behaviours replayed with random provider mixes.",
     "note": "certificates use P-256 and basic constraints only (no key usage / path length / name constraints); primitive inputs are a boundary set, not all byte strings; known findings F15, F16, F20 are reported as KNOWN-FINDING"},
]

_PENDING = "check not built yet in this round (see DESIGN.md section 10 build order); will be claimed once its TLA+ model and binding exist"
NOT_APPLICABLE = [{"property_id": f"C{i:02d}", "reason": _PENDING} for i in range(1, 20) if f"C{i:02d}" not in {c["id"] for c in CHECKS}]
