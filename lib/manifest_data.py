HOOK_COMMITS = ["69b5feac"]
ENGINES = [
    {"name": "tlc+harness", "path": "/verif/bin/check", "serves_properties": ["C20"],
     "kind_free_text": "explicit TLA+ specification (spec/*.tla) checked with TLC; bound to the Rust code by a harness crate "
                       "(/verif/harness) that replays TLC-generated behaviours into mls-rs and records traces validated by TLC"},
]
NOTES = ("Every claimed property is decided through the TLA+ specification in /verif/spec (TLC) bound to the implementation "
         "by /verif/harness. See DESIGN.md. Exit codes of bin/check: 0 held, 1 VIOLATION, 2 tool error.")
CHECKS = [
    {"id": "C20", "category": "model_checking",
     "text": "TLC evaluates the structural (recursive, bit-trick free) RFC 9420 App. C definitions of TreeMath.tla and validates a table "
             "recorded from the real functions: every node of every tree 2^0..2^12 plus out-of-tree indices, all leaf pairs up to 2^7/2^9, "
             "seeded samples up to 2^24. A pure function table is the whole behaviour here, so table validation is the right level.",
     "note": "trusts TLC's evaluator and the hook re-export; pairs above 2^9 leaves and sizes above 2^12 are sampled",
     "technique": "TLA+ reference definitions + TLC trace validation of an implementation-recorded table"},
]
_PENDING = "check not built yet in this round (see DESIGN.md section 10 build order); will be claimed once its TLA+ model and binding exist"
NOT_APPLICABLE = [{"property_id": f"C{i:02d}", "reason": _PENDING} for i in range(1, 20)]
