#!/usr/bin/env python3
"""Regenerates MANIFEST.json from lib/manifest_data.py (single source of truth)."""
import json, os, sys
sys.path.insert(0, os.path.dirname(os.path.abspath(__file__)))
from manifest_data import CHECKS, NOT_APPLICABLE, HOOK_COMMITS, ENGINES, NOTES
V = os.path.dirname(os.path.dirname(os.path.abspath(__file__)))
m = {
    "version": 1,
    "setup_cmd": "cd /verif && bin/setup",
    "hooks": {
        "guard": "cargo feature `verif_hooks` of crate mls-rs (off by default)",
        "enable": "the harness crate /verif/harness depends on /repo/mls-rs with features=[\"verif_hooks\", ...]; checks run `cargo build --offline` there",
        "baseline_off_cmd": "cd /repo && cargo test --workspace --no-fail-fast --offline",
        "source_commits": HOOK_COMMITS,
        "add_only": True,
    },
    "engines": ENGINES,
    "checks": [],
    "notes": NOTES,
    "not_applicable": NOT_APPLICABLE,
}
for c in CHECKS:
    pid = c["id"]
    m["checks"].append({
        "property_id": pid,
        "quick_cmd": f"cd /verif && bin/check {pid} --tier quick",
        "thorough_cmd": f"cd /verif && bin/check {pid} --tier thorough",
        "evidence_file": f"/verif/evidence/{pid}.json",
        "replay_cmd_template": f"cd /verif && bin/check {pid} --replay {{path}}",
        "engine": c.get("engine", "tlc+harness"),
        "level_claimed": {"category": c["category"], "text": c["text"], "design_ref": c.get("design_ref", "DESIGN.md §5 " + pid)},
        "level_note": c["note"],
        "technique": c["technique"],
    })
json.dump(m, open(os.path.join(V, "MANIFEST.json"), "w"), indent=1)
print("MANIFEST.json written:", len(m["checks"]), "checks,", len(m["not_applicable"]), "not_applicable")
