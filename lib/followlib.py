"""Direction 2 of the binding: follow recorded action sequences through the specification (spec/Follow.tla)."""
import sys, os, json, re, tempfile
import vlib
from tlcparse import replay_lines

ALL_FEATURES = ["apps", "storage", "detached", "psk", "gce", "reinit", "badkp", "custom", "observer", "succ", "extcommit", "caps", "extsender", "newmember", "lastresort"]

def follow_batch(bs, features=None, timeout=1200, workers=8):
    """Follow a list of recorded sequences (same party set) in one TLC run; returns [(followed, model|None)] and the TLC result."""
    cfgd = bs[0].get("cfg", {})
    parties = cfgd.get("parties") or sorted({s["p"] for b in bs for s in b["steps"] if s["p"].startswith("p")})
    pskids, pskvals = set(), {"none"}
    for b in bs:
        for v in (b.get("cfg", {}).get("psk") or {}).values():
            if isinstance(v, dict):
                pskids |= set(v); pskvals |= set(v.values())
    q = lambda xs: "{" + ", ".join('"%s"' % x for x in sorted(xs)) + "}"
    feats = features or ALL_FEATURES
    capx, capy = cfgd.get("capX") or [], cfgd.get("capY") or []
    cfg = f"""SPECIFICATION FSpec
CONSTANTS
  Parties = {q(parties)}
  Creator = "{cfgd.get('creator', 'p1')}"
  MaxCommits = 400
  MaxProps = 400
  MaxKps = 400
  MaxEpoch = 300
  PathRequiredChoices = {{FALSE, TRUE}}
  EncChoices = {{FALSE, TRUE}}
  ByValueMax = 3
  AllowConflicts = FALSE
  Features = {q(feats)}
  Window = {cfgd.get('window', 1024)}
  Retention = {cfgd.get('retention', 3)}
  BurstSizes = {{1, 2, 3, 1024, 1025, 1026}}
  PskIds = {q(pskids)}
  PskValues = {q(pskvals)}
  JitterChoices = {{99999, 0, 1, 2, 1000}}
  Deviations = {{"F12", "F14", "F24"}}
  MaxApps = 400
  MaxSucc = 60
  CapX = {q(capx)}
  CapY = {q(capy)}
  Depth = 100000
  BootSize = 0
  WProgress = 60
  WPropose = 30
  WCommit = 35
  WApp = 15
  LateBias = 3
  WStore = 10
INVARIANT FEmit
CHECK_DEADLOCK FALSE
"""
    name = f"FOLLOW_{os.getpid()}"
    cfgp = os.path.join(vlib.SPEC, name + ".cfg")
    with tempfile.NamedTemporaryFile("w", suffix=".ndjson", delete=False, dir=vlib.workdir("follow")) as f:
        for b in bs:
            b2 = dict(b); b2["cfg"] = dict(b.get("cfg", {}))
            for k, v in (("pathReq", False), ("enc", False), ("jit", 99999)):
                b2["cfg"].setdefault(k, v)
            pk = b2["cfg"].get("psk") or {}
            b2["cfg"]["psk"] = {p: {i: (pk.get(p) or {}).get(i, "none") if isinstance(pk.get(p), dict) else "none" for i in sorted(pskids)} for p in parties}
            # only what Follow.tla reads
            f.write(json.dumps({"cfg": b2["cfg"], "steps": [{"a": s["a"], "p": s["p"], "args": s["args"]} for s in b2["steps"]]}) + "\n")
        bf = f.name
    open(cfgp, "w").write(cfg)
    try:
        r = vlib.tlc("Follow", cfg=name, workers=workers, timeout=timeout, env={"FOLLOW_FILE": bf}, name="follow")
    finally:
        os.unlink(cfgp); os.unlink(bf)
    followed = {}
    for bi, k in re.findall(r'"FOLLOWED", (\d+), (\d+)', r.out):
        followed[int(bi)] = max(followed.get(int(bi), -1), int(k))
    models = {m["bi"]: m for m in replay_lines(r.out)}
    return [(followed.get(i + 1, -1), models.get(i + 1)) for i in range(len(bs))], r

def follow_one(b, features=None, timeout=600):
    res, r = follow_batch([b], features, timeout, workers=1)
    return res[0][0], res[0][1], r

def normalise(b):
    """Bring replays written by earlier versions of the specification to the current vocabulary: missing argument
    fields get their defaults, and the delivery-service choice (DsChoose) is made explicit before a commit is first used."""
    steps, chosen, by = [], set(), {}
    ncommit = 0
    has_ds = any(s["a"] == "DsChoose" for s in b["steps"])
    for s in b["steps"]:
        s = json.loads(json.dumps(s))
        if s["a"] == "GenKeyPackage": s["args"].setdefault("bad", ""); s["args"].setdefault("lr", False)
        if s["a"] in ("Commit", "CommitDetached") and s.get("res") == "ok":
            ncommit += 1; by[ncommit] = s["p"]
        if not has_ds and s["a"] in ("JoinWelcome", "DeliverCommit") and s["args"].get("commit") not in chosen and s["args"].get("commit") in by:
            n = s["args"]["commit"]; chosen.add(n)
            steps.append({"a": "DsChoose", "p": by[n], "args": {"commit": n}})
        steps.append(s)
    b = dict(b); b["steps"] = steps
    return b

def res_same(want, got):
    if want == got: return True
    if want.startswith("err:rule") and got.startswith("err:rule"): return True
    if want == "err:succ" and got.startswith("err"): return True
    if ":" in want and want.rsplit(":", 1)[1].startswith("F") and got == want.rsplit(":", 1)[0]: return True
    return False

