import json, re
def replay_lines(text):
    """yield behaviours from TLC output lines of the form <<"REPLAY", "<json string literal>">>"""
    for line in text.splitlines():
        if line.startswith('<<"REPLAY", "'):
            body = line[len('<<"REPLAY", '):-2]
            # TLA+ string literal -> python string (escapes: \" and \\)
            yield json.loads(json.loads(body))
