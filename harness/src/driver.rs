//! Direction 2 (implementation -> specification): a random driver that owes nothing to TLC's simulation.
//! It makes API calls on real mls-rs groups, choosing among the calls that are possible in the real state,
//! and records (action, party, arguments, observed outcome) in the vocabulary of MlsGroup.tla.  The recorded
//! sequences are followed through the specification by TLC (spec/Follow.tla, bin/follow): a recorded outcome
//! that the specification does not give, or a divergence found when the specification's behaviour for the
//! sequence is replayed with all oracles, is a violation.
use crate::replay::Replayer;
use crate::world::*;
use rand::rngs::StdRng;
use rand::seq::IndexedRandom;
use rand::{Rng, SeedableRng};
use serde_json::{json, Value};
use std::collections::{HashMap, HashSet};

struct PropInfo { by: String, ks: String, kind: String, target: u64 }
struct CommitInfo { by: String, base_ks: String, base_epoch: u64, new_ks: Option<String>, removed_ids: Vec<String>, added_kps: Vec<usize>, external: bool }

fn ks_of(g: &mls_rs::Group<Cfg>) -> String {
    g.epoch_authenticator().map(|a| hex::encode(a.as_bytes())).unwrap_or_default()
}
fn ids_of(g: &mls_rs::Group<Cfg>) -> Vec<(u32, String)> {
    g.roster().members_iter().map(|m| (m.index, m.signing_identity.credential.as_basic().map(|b| String::from_utf8_lossy(&b.identifier).to_string()).unwrap_or_default())).collect()
}

pub struct Driver {
    r: Replayer,
    rng: StdRng,
    names: Vec<String>,
    steps: Vec<Value>,
    kp_used: HashSet<usize>,
    props: Vec<PropInfo>,
    commits: Vec<CommitInfo>,
    winner: HashMap<u64, usize>,
    send_gen: HashMap<String, u64>,
    written_gen: HashMap<String, u64>,
    written: HashSet<String>,
    app_info: Vec<(String, u64, usize)>, // sender, lo, count
    features: HashSet<String>,
}

impl Driver {
    pub fn new(opts: Opts, names: Vec<String>, seed: u64, features: &[&str]) -> Driver {
        let w = World::new(opts, &names, &names[0]).expect("world");
        let mut r = Replayer::new(w, false);
        r.w.rec.set(true, false);
        Driver { r, rng: StdRng::seed_from_u64(seed), names, steps: vec![], kp_used: Default::default(), props: vec![], commits: vec![], winner: Default::default(),
                 send_gen: Default::default(), written_gen: Default::default(), written: Default::default(), app_info: vec![], features: features.iter().map(|s| s.to_string()).collect() }
    }

    fn group(&self, p: &str) -> Option<&mls_rs::Group<Cfg>> { self.r.w.parties[p].group.as_ref() }
    fn members(&self) -> Vec<String> { self.names.iter().filter(|n| self.group(n).is_some()).cloned().collect() }

    fn chain_ok(&self, base_epoch: u64, base_ks: &str) -> bool {
        if self.winner.contains_key(&base_epoch) { return false; }
        if base_epoch == 0 { return true; }
        match self.winner.get(&(base_epoch - 1)) {
            Some(w) => self.commits[*w].new_ks.as_deref() == Some(base_ks),
            None => false,
        }
    }

    /// run one call through the replayer's executor and record it
    fn call(&mut self, a: &str, p: &str, args: Value) -> String {
        let ps = p.to_string();
        let before_epoch = self.group(p).map(|g| (g.current_epoch(), ks_of(g)));
        let (got, _) = self.r.exec_pub(a, &ps, &args, &json!({}), "");
        let after_epoch = self.group(p).map(|g| (g.current_epoch(), ks_of(g)));
        if before_epoch != after_epoch && a != "Load" { self.send_gen.insert(ps.clone(), 0); }
        self.steps.push(json!({"a": a, "p": p, "args": args, "res_impl": got}));
        got
    }

    fn step(&mut self) -> bool {
        let mem = self.members();
        let c = self.rng.random_range(0..100);
        let pick = |rng: &mut StdRng, v: &Vec<String>| v.choose(rng).cloned();
        if c < 8 {
            // GenKeyPackage: a party without a group and without an outstanding package
            let cand: Vec<String> = self.names.iter().filter(|n| self.group(n).is_none()
                && !self.r.w.kps.iter().enumerate().any(|(i, k)| &k.owner == *n && !self.kp_used.contains(&i))).cloned().collect();
            if let Some(p) = pick(&mut self.rng, &cand) {
                let idx = self.r.w.kps.len() + 1;
                self.call("GenKeyPackage", &p, json!({"kp": idx, "bad": "", "lr": false}));
                return true;
            }
        } else if c < 30 {
            // Propose
            if let Some(p) = pick(&mut self.rng, &mem) {
                let g = self.group(&p).unwrap();
                let ks = ks_of(g);
                let ids = ids_of(g);
                let me = g.current_member_index();
                let j = self.r.w.props.len() + 1;
                let kind = ["add", "rem", "upd", "upd", "custom", "gce"][self.rng.random_range(0..6)];
                match kind {
                    "add" => {
                        let cand: Vec<usize> = (0..self.r.w.kps.len()).filter(|i| !self.kp_used.contains(i) && !ids.iter().any(|(_, id)| id == &self.r.w.kps[*i].owner)).collect();
                        if !self.props.iter().any(|q| q.kind == "add" && q.ks == ks) {
                            if let Some(i) = cand.choose(&mut self.rng).cloned() {
                                if self.call("Propose", &p, json!({"kp": i + 1, "prop": j, "kind": "add"})) == "ok" {
                                    self.props.push(PropInfo { by: p, ks, kind: "add".into(), target: 0 });
                                }
                                return true;
                            }
                        }
                    }
                    "rem" => {
                        let cand: Vec<u32> = ids.iter().map(|x| x.0).filter(|l| *l != me && !self.props.iter().any(|q| q.kind == "rem" && q.ks == ks && q.target == *l as u64)).collect();
                        if let Some(l) = cand.choose(&mut self.rng).cloned() {
                            if self.call("Propose", &p, json!({"target": l, "prop": j, "kind": "rem"})) == "ok" {
                                self.props.push(PropInfo { by: p, ks, kind: "rem".into(), target: l as u64 });
                            }
                            return true;
                        }
                    }
                    "upd" => {
                        if !self.props.iter().any(|q| q.kind == "upd" && q.ks == ks && q.by == p) {
                            if self.call("Propose", &p, json!({"x": 0, "prop": j, "kind": "upd"})) == "ok" {
                                self.props.push(PropInfo { by: p, ks, kind: "upd".into(), target: 0 });
                            }
                            return true;
                        }
                    }
                    "gce" if self.features.contains("gce") => {
                        if !self.props.iter().any(|q| q.kind == "gce" && q.ks == ks) {
                            if self.call("Propose", &p, json!({"ver": j, "prop": j, "kind": "gce"})) == "ok" {
                                self.props.push(PropInfo { by: p, ks, kind: "gce".into(), target: 0 });
                            }
                            return true;
                        }
                    }
                    "custom" if self.features.contains("custom") => {
                        if self.call("Propose", &p, json!({"ver": j, "prop": j, "kind": "custom"})) == "ok" {
                            self.props.push(PropInfo { by: p, ks, kind: "custom".into(), target: 0 });
                        }
                        return true;
                    }
                    _ => {}
                }
            }
        } else if c < 45 {
            // DeliverProposal: to a member that does not hold it yet (any epoch: stale ones must be rejected)
            if !self.props.is_empty() {
                if let Some(q) = pick(&mut self.rng, &mem) {
                    let g = self.group(&q).unwrap();
                    let cached: Vec<Vec<u8>> = g.get_cached_proposals().iter().map(|c| c.proposal_ref().as_slice().to_vec()).collect();
                    let ks = ks_of(g);
                    let mut cand: Vec<usize> = (0..self.props.len()).filter(|j| self.props[*j].by != q && !cached.contains(&self.r.w.prop_refs[*j])).collect();
                    // mostly current ones
                    let cur: Vec<usize> = cand.iter().cloned().filter(|j| self.props[*j].ks == ks).collect();
                    if !cur.is_empty() && self.rng.random_range(0..10) < 8 { cand = cur; }
                    if let Some(j) = cand.choose(&mut self.rng).cloned() {
                        self.call("DeliverProposal", &q, json!({"prop": j + 1}));
                        return true;
                    }
                }
            }
        } else if c < 58 {
            // Commit with 0..2 by-value proposals
            if let Some(p) = pick(&mut self.rng, &mem) {
                let g = self.group(&p).unwrap().clone();
                let ids = ids_of(&g);
                let me = g.current_member_index() as u64;
                let mut byval = vec![];
                let mut added = vec![];
                for _ in 0..self.rng.random_range(0..3) {
                    if self.rng.random_range(0..3) > 0 {
                        let cand: Vec<usize> = (0..self.r.w.kps.len()).filter(|i| !self.kp_used.contains(i) && !added.contains(i)).collect();
                        if let Some(i) = cand.choose(&mut self.rng).cloned() {
                            byval.push(json!({"by": me, "kind": "add", "kp": i + 1, "ref": 0}));
                            added.push(i);
                        }
                    } else if let Some((l, _)) = ids.choose(&mut self.rng).cloned() {
                        byval.push(json!({"by": me, "kind": "rem", "ref": 0, "target": l}));
                    }
                }
                let base_ks = ks_of(&g);
                let base_epoch = g.current_epoch();
                let n_before = self.r.w.commits.len();
                let got = self.call("Commit", &p, json!({"byval": byval}));
                if got == "ok" && self.r.w.commits.len() == n_before + 1 {
                    // what the commit does, learnt from a clone that applies it
                    let mut cl = self.group(&p).unwrap().clone();
                    let (new_ks, removed_ids) = match cl.apply_pending_commit() {
                        Ok(_) => {
                            let after: Vec<String> = ids_of(&cl).into_iter().map(|x| x.1).collect();
                            (Some(ks_of(&cl)), ids.iter().map(|x| x.1.clone()).filter(|i| !after.contains(i)).collect())
                        }
                        Err(_) => (None, vec![]),
                    };
                    let refs: Vec<Vec<u8>> = self.r.w.commits[n_before].welcomes.iter().flat_map(|w| w.welcome_key_package_references().into_iter().map(|r| r.to_vec())).collect();
                    let added_kps = (0..self.r.w.kps.len()).filter(|i| refs.contains(&self.r.w.kps[*i].store_id)).collect();
                    self.commits.push(CommitInfo { by: p, base_ks, base_epoch, new_ks, removed_ids, added_kps, external: false });
                }
                return true;
            }
        } else if c < 64 {
            // DsChoose
            let cand: Vec<usize> = (0..self.commits.len()).filter(|n| self.chain_ok(self.commits[*n].base_epoch, &self.commits[*n].base_ks) && self.commits[*n].new_ks.is_some()).collect();
            if let Some(n) = cand.choose(&mut self.rng).cloned() {
                self.winner.insert(self.commits[n].base_epoch, n);
                let by = self.commits[n].by.clone();
                self.steps.push(json!({"a": "DsChoose", "p": by, "args": {"commit": n + 1}}));
                return true;
            }
        } else if c < 72 {
            // ApplyPending (own commit chosen, or none pending) / ClearPending
            if let Some(p) = pick(&mut self.rng, &mem) {
                let g = self.group(&p).unwrap();
                if g.has_pending_commit() {
                    let n = (0..self.commits.len()).rev().find(|n| self.commits[*n].by == p && !self.commits[*n].external);
                    if let Some(n) = n {
                        if self.winner.get(&self.commits[n].base_epoch) == Some(&n) {
                            self.call("ApplyPending", &p, json!({"x": 0}));
                            return true;
                        } else if self.winner.contains_key(&self.commits[n].base_epoch) || self.rng.random_range(0..6) == 0 {
                            self.call("ClearPending", &p, json!({"x": 0}));
                            return true;
                        }
                    }
                } else if self.rng.random_range(0..4) == 0 {
                    self.call("ApplyPending", &p, json!({"x": 0}));
                    return true;
                }
            }
        } else if c < 84 {
            // DeliverCommit: chosen commits (and stale ones) to members; JoinWelcome for invited parties
            let chosen: Vec<usize> = self.winner.values().cloned().collect();
            if let Some(n) = chosen.choose(&mut self.rng).cloned() {
                let joiners: Vec<(String, usize)> = self.commits[n].added_kps.iter().filter(|i| !self.kp_used.contains(i))
                    .map(|i| (self.r.w.kps[*i].owner.clone(), *i)).filter(|(o, _)| self.group(o).is_none()).collect();
                if !joiners.is_empty() && self.rng.random_range(0..2) == 0 {
                    let (q, i) = joiners.choose(&mut self.rng).cloned().unwrap();
                    if self.call("JoinWelcome", &q, json!({"commit": n + 1, "kp": i + 1})) == "ok" { self.kp_used.insert(i); }
                    return true;
                }
                // prefer receivers for which the commit is the next one
                let next: Vec<String> = mem.iter().filter(|q| ks_of(self.group(q).unwrap()) == self.commits[n].base_ks).cloned().collect();
                let stale: Vec<String> = mem.iter().filter(|q| self.group(q).unwrap().current_epoch() > self.commits[n].base_epoch).cloned().collect();
                let q = if !next.is_empty() && self.rng.random_range(0..10) < 8 { pick(&mut self.rng, &next) } else if !stale.is_empty() { pick(&mut self.rng, &stale) } else { pick(&mut self.rng, &next) };
                if let Some(q) = q {
                    self.call("DeliverCommit", &q, json!({"commit": n + 1}));
                    return true;
                }
            }
        } else if c < 87 {
            // Retire: a member that a chosen commit on its own epoch removes
            for q in mem.iter() {
                let g = self.group(q).unwrap();
                let ks = ks_of(g);
                let e = g.current_epoch();
                if let Some(n) = self.winner.get(&e) {
                    if self.commits[*n].base_ks == ks && self.commits[*n].removed_ids.contains(q) {
                        let q = q.clone();
                        self.call("Retire", &q, json!({"x": 0}));
                        return true;
                    }
                }
            }
        } else if c < 93 && self.features.contains("storage") {
            if let Some(p) = pick(&mut self.rng, &self.names.clone()) {
                if self.group(&p).is_some() && self.rng.random_range(0..3) > 0 {
                    if self.call("Write", &p, json!({"x": 0})) == "ok" {
                        self.written.insert(p.clone());
                        self.written_gen.insert(p.clone(), *self.send_gen.get(&p).unwrap_or(&0));
                    }
                    return true;
                } else if self.written.contains(&p) {
                    if self.call("Load", &p, json!({"x": 0})) == "ok" {
                        self.send_gen.insert(p.clone(), *self.written_gen.get(&p).unwrap_or(&0));
                    }
                    return true;
                }
            }
        } else if c < 97 && self.features.contains("extcommit") {
            // ExternalCommit by a party without a group (or a member that resynchronises)
            if let Some(p) = pick(&mut self.rng, &mem) {
                let g = self.group(&p).unwrap();
                let (e, ks) = (g.current_epoch(), ks_of(g));
                let ids = ids_of(g);
                if self.chain_ok(e, &ks) {
                    let cand: Vec<String> = self.names.iter().filter(|q| **q != p).cloned().collect();
                    if let Some(q) = pick(&mut self.rng, &cand) {
                        let in_tree = ids.iter().find(|(_, id)| id == &q).map(|x| x.0);
                        let has = self.group(&q).is_some();
                        let resync = in_tree.is_some() && (has || self.rng.random_range(0..4) > 0);
                        if has && !resync { return false; }
                        let n_before = self.r.w.commits.len();
                        let got = self.call("ExternalCommit", &q, json!({"from": p, "resync": resync, "oldLeaf": in_tree.unwrap_or(0)}));
                        if got == "ok" && self.r.w.commits.len() == n_before + 1 {
                            let new_ks = Some(ks_of(self.group(&q).unwrap()));
                            self.commits.push(CommitInfo { by: q.clone(), base_ks: ks, base_epoch: e, new_ks, removed_ids: vec![], added_kps: vec![], external: true });
                            self.winner.insert(e, self.commits.len() - 1);
                            self.send_gen.insert(q, 0);
                        }
                        return true;
                    }
                }
            }
        } else if self.features.contains("apps") {
            // application traffic
            if self.rng.random_range(0..2) == 0 || self.app_info.is_empty() {
                if let Some(p) = pick(&mut self.rng, &mem) {
                    let k = [1u64, 1, 2, 3][self.rng.random_range(0..4)];
                    let lo = *self.send_gen.get(&p).unwrap_or(&0);
                    let idx = self.r.w.apps.len() + 1;
                    let got = self.call("Encrypt", &p, json!({"k": k}));
                    if got == "ok" {
                        self.r.w.app_lo.insert(idx, lo as usize);
                        let leaf = self.group(&p).unwrap().current_member_index();
                        self.r.w.app_leaf.insert(idx, leaf);
                        self.app_info.push((p.clone(), lo, k as usize));
                        self.send_gen.insert(p, lo + k);
                    }
                    return true;
                }
            } else {
                let a = self.rng.random_range(0..self.app_info.len());
                let (sender, lo, cnt) = self.app_info[a].clone();
                let cand: Vec<String> = mem.iter().filter(|q| **q != sender).cloned().collect();
                if let Some(q) = pick(&mut self.rng, &cand) {
                    let gen = lo + self.rng.random_range(0..cnt) as u64;
                    self.call("DeliverApp", &q, json!({"app": a + 1, "gen": gen}));
                    return true;
                }
            }
        }
        false
    }

    pub fn run(mut self, len: usize) -> Value {
        let mut tries = 0;
        while self.steps.len() < len && tries < len * 30 {
            tries += 1;
            let r = std::panic::catch_unwind(std::panic::AssertUnwindSafe(|| self.step()));
            if r.is_err() {
                if let Some(l) = self.steps.last_mut() { l["panicked_after"] = json!(true); }
                break;
            }
        }
        let o = &self.r.w.opts;
        json!({"cfg": {"pathReq": o.path_required, "enc": o.encrypt_controls, "jit": 99999, "retention": o.retention, "window": 1024,
                       "psk": self.names.iter().map(|n| (n.clone(), json!({}))).collect::<serde_json::Map<String, Value>>(),
                       "parties": self.names, "creator": self.names[0]},
               "steps": self.steps})
    }
}
