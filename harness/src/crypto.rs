//! A crypto provider that (a) dispatches to one of the three shipped providers, chosen per
//! party, and (b) records every primitive call.  Pure harness code: providers are pluggable,
//! so no repository hook is needed (C02, C05, C13, C14 monitors).
use mls_rs_core::crypto::{
    CipherSuite, CipherSuiteProvider, CryptoProvider, HpkeCiphertext, HpkeContextR, HpkeContextS,
    HpkePsk, HpkePublicKey, HpkeSecretKey, SignaturePublicKey, SignatureSecretKey,
};
use mls_rs_core::error::IntoAnyError;
use mls_rs_crypto_awslc::AwsLcCryptoProvider;
use mls_rs_crypto_openssl::OpensslCryptoProvider;
use mls_rs_crypto_rustcrypto::RustCryptoProvider;
use std::sync::{Arc, Mutex};
use zeroize::Zeroizing;

type OsslSuite = <OpensslCryptoProvider as CryptoProvider>::CipherSuiteProvider;
type AwsSuite = <AwsLcCryptoProvider as CryptoProvider>::CipherSuiteProvider;
type RcSuite = <RustCryptoProvider as CryptoProvider>::CipherSuiteProvider;

#[derive(Clone, Copy, Debug, PartialEq, Eq, Hash)]
pub enum Backend {
    Openssl,
    AwsLc,
    RustCrypto,
}

impl Backend {
    pub fn all() -> [Backend; 3] {
        [Backend::Openssl, Backend::AwsLc, Backend::RustCrypto]
    }
    pub fn name(&self) -> &'static str {
        match self {
            Backend::Openssl => "openssl",
            Backend::AwsLc => "awslc",
            Backend::RustCrypto => "rustcrypto",
        }
    }
    pub fn supports(&self, cs: CipherSuite) -> bool {
        match self {
            Backend::Openssl => OpensslCryptoProvider::default().cipher_suite_provider(cs).is_some(),
            Backend::AwsLc => AwsLcCryptoProvider::default().cipher_suite_provider(cs).is_some(),
            Backend::RustCrypto => RustCryptoProvider::default().cipher_suite_provider(cs).is_some(),
        }
    }
}

#[derive(Debug)]
pub struct CErr(pub String);
impl std::fmt::Display for CErr {
    fn fmt(&self, f: &mut std::fmt::Formatter<'_>) -> std::fmt::Result {
        write!(f, "{}", self.0)
    }
}
impl std::error::Error for CErr {}
impl IntoAnyError for CErr {
    fn into_dyn_error(self) -> Result<Box<dyn std::error::Error + Send + Sync>, Self> {
        Ok(Box::new(self))
    }
}
fn ce<E: IntoAnyError>(e: E) -> CErr {
    CErr(format!("{:?}", e))
}

/// One recorded primitive call.
#[derive(Clone, Debug)]
pub enum Ev {
    Hash { data: Vec<u8>, out: Vec<u8> },
    Mac { key: Vec<u8>, data: Vec<u8>, out: Vec<u8> },
    Extract { salt: Vec<u8>, ikm: Vec<u8>, out: Vec<u8> },
    Expand { prk: Vec<u8>, info: Vec<u8>, len: usize, out: Vec<u8> },
    AeadSeal { key: Vec<u8>, nonce: Vec<u8>, aad: Vec<u8>, pt_len: usize },
    AeadOpen { key: Vec<u8>, nonce: Vec<u8>, ok: bool },
    HpkeSeal { pk: Vec<u8>, info: Vec<u8>, pt: Vec<u8> },
    HpkeOpen { pk: Vec<u8>, ok: bool },
    HpkeSetupS { pk: Vec<u8> },
    HpkeSetupR { pk: Vec<u8>, ok: bool },
    KemDerive { ikm: Vec<u8>, pk: Vec<u8> },
    Sign { len: usize },
    Verify { ok: bool },
}

#[derive(Default)]
pub struct RecState {
    pub on: bool,
    pub full: bool, // record hash/mac/kdf with full inputs (C13); otherwise only seals/opens
    pub evs: Vec<(String, Ev)>,
}

#[derive(Clone, Default)]
pub struct Recorder(pub Arc<Mutex<RecState>>);

impl Recorder {
    pub fn new() -> Self {
        Self::default()
    }
    pub fn set(&self, on: bool, full: bool) {
        let mut s = self.0.lock().unwrap();
        s.on = on;
        s.full = full;
    }
    pub fn take(&self) -> Vec<(String, Ev)> {
        std::mem::take(&mut self.0.lock().unwrap().evs)
    }
    pub fn len(&self) -> usize {
        self.0.lock().unwrap().evs.len()
    }
    pub fn since(&self, mark: usize) -> Vec<(String, Ev)> {
        self.0.lock().unwrap().evs[mark..].to_vec()
    }
    fn push(&self, who: &str, full_only: bool, f: impl FnOnce() -> Ev) {
        let mut s = self.0.lock().unwrap();
        if s.on && (!full_only || s.full) {
            let e = f();
            s.evs.push((who.to_string(), e));
        }
    }
}

#[derive(Clone)]
pub struct DynCrypto {
    pub backend: Backend,
    pub label: String,
    pub rec: Recorder,
}

impl DynCrypto {
    pub fn new(backend: Backend, label: &str, rec: Recorder) -> Self {
        DynCrypto { backend, label: label.to_string(), rec }
    }
}

impl CryptoProvider for DynCrypto {
    type CipherSuiteProvider = DynSuite;

    fn supported_cipher_suites(&self) -> Vec<CipherSuite> {
        match self.backend {
            Backend::Openssl => OpensslCryptoProvider::default().supported_cipher_suites(),
            Backend::AwsLc => AwsLcCryptoProvider::default().supported_cipher_suites(),
            Backend::RustCrypto => RustCryptoProvider::default().supported_cipher_suites(),
        }
    }

    fn cipher_suite_provider(&self, cs: CipherSuite) -> Option<DynSuite> {
        let inner = match self.backend {
            Backend::Openssl => Inner::O(OpensslCryptoProvider::default().cipher_suite_provider(cs)?),
            Backend::AwsLc => Inner::A(AwsLcCryptoProvider::default().cipher_suite_provider(cs)?),
            Backend::RustCrypto => Inner::R(RustCryptoProvider::default().cipher_suite_provider(cs)?),
        };
        Some(DynSuite { inner, label: self.label.clone(), rec: self.rec.clone() })
    }
}

#[derive(Clone)]
enum Inner {
    O(OsslSuite),
    A(AwsSuite),
    R(RcSuite),
}

#[derive(Clone)]
pub struct DynSuite {
    inner: Inner,
    label: String,
    rec: Recorder,
}

macro_rules! disp {
    ($self:expr, $s:ident => $e:expr) => {
        match &$self.inner {
            Inner::O($s) => $e.map_err(ce),
            Inner::A($s) => $e.map_err(ce),
            Inner::R($s) => $e.map_err(ce),
        }
    };
}
macro_rules! disp_plain {
    ($self:expr, $s:ident => $e:expr) => {
        match &$self.inner {
            Inner::O($s) => $e,
            Inner::A($s) => $e,
            Inner::R($s) => $e,
        }
    };
}

pub enum CtxS {
    O(<OsslSuite as CipherSuiteProvider>::HpkeContextS),
    A(<AwsSuite as CipherSuiteProvider>::HpkeContextS),
    R(<RcSuite as CipherSuiteProvider>::HpkeContextS),
}
pub enum CtxR {
    O(<OsslSuite as CipherSuiteProvider>::HpkeContextR),
    A(<AwsSuite as CipherSuiteProvider>::HpkeContextR),
    R(<RcSuite as CipherSuiteProvider>::HpkeContextR),
}

impl HpkeContextS for CtxS {
    type Error = CErr;
    fn seal(&mut self, aad: Option<&[u8]>, data: &[u8]) -> Result<Vec<u8>, CErr> {
        match self {
            CtxS::O(c) => c.seal(aad, data).map_err(ce),
            CtxS::A(c) => c.seal(aad, data).map_err(ce),
            CtxS::R(c) => c.seal(aad, data).map_err(ce),
        }
    }
    fn export(&self, ctx: &[u8], len: usize) -> Result<Zeroizing<Vec<u8>>, CErr> {
        match self {
            CtxS::O(c) => c.export(ctx, len).map_err(ce),
            CtxS::A(c) => c.export(ctx, len).map_err(ce),
            CtxS::R(c) => c.export(ctx, len).map_err(ce),
        }
    }
}
impl HpkeContextR for CtxR {
    type Error = CErr;
    fn open(&mut self, aad: Option<&[u8]>, ct: &[u8]) -> Result<Zeroizing<Vec<u8>>, CErr> {
        match self {
            CtxR::O(c) => c.open(aad, ct).map_err(ce),
            CtxR::A(c) => c.open(aad, ct).map_err(ce),
            CtxR::R(c) => c.open(aad, ct).map_err(ce),
        }
    }
    fn export(&self, ctx: &[u8], len: usize) -> Result<Zeroizing<Vec<u8>>, CErr> {
        match self {
            CtxR::O(c) => c.export(ctx, len).map_err(ce),
            CtxR::A(c) => c.export(ctx, len).map_err(ce),
            CtxR::R(c) => c.export(ctx, len).map_err(ce),
        }
    }
}

impl CipherSuiteProvider for DynSuite {
    type Error = CErr;
    type HpkeContextS = CtxS;
    type HpkeContextR = CtxR;

    fn cipher_suite(&self) -> CipherSuite {
        disp_plain!(self, s => s.cipher_suite())
    }

    fn hash(&self, data: &[u8]) -> Result<Vec<u8>, CErr> {
        let r = disp!(self, s => s.hash(data))?;
        self.rec.push(&self.label, true, || Ev::Hash { data: data.to_vec(), out: r.clone() });
        Ok(r)
    }

    fn mac(&self, key: &[u8], data: &[u8]) -> Result<Vec<u8>, CErr> {
        let r = disp!(self, s => s.mac(key, data))?;
        self.rec.push(&self.label, true, || Ev::Mac { key: key.to_vec(), data: data.to_vec(), out: r.clone() });
        Ok(r)
    }

    fn aead_seal(&self, key: &[u8], data: &[u8], aad: Option<&[u8]>, nonce: &[u8]) -> Result<Vec<u8>, CErr> {
        self.rec.push(&self.label, false, || Ev::AeadSeal {
            key: key.to_vec(),
            nonce: nonce.to_vec(),
            aad: aad.unwrap_or(&[]).to_vec(),
            pt_len: data.len(),
        });
        disp!(self, s => s.aead_seal(key, data, aad, nonce))
    }

    fn aead_open(&self, key: &[u8], ct: &[u8], aad: Option<&[u8]>, nonce: &[u8]) -> Result<Zeroizing<Vec<u8>>, CErr> {
        let r = disp!(self, s => s.aead_open(key, ct, aad, nonce));
        self.rec.push(&self.label, false, || Ev::AeadOpen { key: key.to_vec(), nonce: nonce.to_vec(), ok: r.is_ok() });
        r
    }

    fn aead_key_size(&self) -> usize {
        disp_plain!(self, s => s.aead_key_size())
    }
    fn aead_nonce_size(&self) -> usize {
        disp_plain!(self, s => s.aead_nonce_size())
    }

    fn kdf_extract(&self, salt: &[u8], ikm: &[u8]) -> Result<Zeroizing<Vec<u8>>, CErr> {
        let r = disp!(self, s => s.kdf_extract(salt, ikm))?;
        self.rec.push(&self.label, true, || Ev::Extract { salt: salt.to_vec(), ikm: ikm.to_vec(), out: r.to_vec() });
        Ok(r)
    }

    fn kdf_expand(&self, prk: &[u8], info: &[u8], len: usize) -> Result<Zeroizing<Vec<u8>>, CErr> {
        let r = disp!(self, s => s.kdf_expand(prk, info, len))?;
        self.rec.push(&self.label, true, || Ev::Expand { prk: prk.to_vec(), info: info.to_vec(), len, out: r.to_vec() });
        Ok(r)
    }

    fn kdf_extract_size(&self) -> usize {
        disp_plain!(self, s => s.kdf_extract_size())
    }

    fn hpke_seal(&self, pk: &HpkePublicKey, info: &[u8], aad: Option<&[u8]>, pt: &[u8]) -> Result<HpkeCiphertext, CErr> {
        self.rec.push(&self.label, false, || Ev::HpkeSeal { pk: pk.as_ref().to_vec(), info: info.to_vec(), pt: pt.to_vec() });
        disp!(self, s => s.hpke_seal(pk, info, aad, pt))
    }

    fn hpke_seal_psk(&self, pk: &HpkePublicKey, info: &[u8], aad: Option<&[u8]>, pt: &[u8], psk: HpkePsk<'_>) -> Result<HpkeCiphertext, CErr> {
        self.rec.push(&self.label, false, || Ev::HpkeSeal { pk: pk.as_ref().to_vec(), info: info.to_vec(), pt: pt.to_vec() });
        disp!(self, s => s.hpke_seal_psk(pk, info, aad, pt, HpkePsk::new(psk.id, psk.value)))
    }

    fn hpke_open(&self, ct: &HpkeCiphertext, sk: &HpkeSecretKey, pk: &HpkePublicKey, info: &[u8], aad: Option<&[u8]>) -> Result<Zeroizing<Vec<u8>>, CErr> {
        let r = disp!(self, s => s.hpke_open(ct, sk, pk, info, aad));
        self.rec.push(&self.label, false, || Ev::HpkeOpen { pk: pk.as_ref().to_vec(), ok: r.is_ok() });
        r
    }

    fn hpke_open_psk(&self, ct: &HpkeCiphertext, sk: &HpkeSecretKey, pk: &HpkePublicKey, info: &[u8], aad: Option<&[u8]>, psk: HpkePsk<'_>) -> Result<Zeroizing<Vec<u8>>, CErr> {
        let r = disp!(self, s => s.hpke_open_psk(ct, sk, pk, info, aad, HpkePsk::new(psk.id, psk.value)));
        self.rec.push(&self.label, false, || Ev::HpkeOpen { pk: pk.as_ref().to_vec(), ok: r.is_ok() });
        r
    }

    fn hpke_setup_s(&self, pk: &HpkePublicKey, info: &[u8]) -> Result<(Vec<u8>, CtxS), CErr> {
        self.rec.push(&self.label, false, || Ev::HpkeSetupS { pk: pk.as_ref().to_vec() });
        match &self.inner {
            Inner::O(s) => s.hpke_setup_s(pk, info).map(|(k, c)| (k, CtxS::O(c))).map_err(ce),
            Inner::A(s) => s.hpke_setup_s(pk, info).map(|(k, c)| (k, CtxS::A(c))).map_err(ce),
            Inner::R(s) => s.hpke_setup_s(pk, info).map(|(k, c)| (k, CtxS::R(c))).map_err(ce),
        }
    }

    fn hpke_setup_r(&self, kem_output: &[u8], sk: &HpkeSecretKey, pk: &HpkePublicKey, info: &[u8]) -> Result<CtxR, CErr> {
        let r = match &self.inner {
            Inner::O(s) => s.hpke_setup_r(kem_output, sk, pk, info).map(CtxR::O).map_err(ce),
            Inner::A(s) => s.hpke_setup_r(kem_output, sk, pk, info).map(CtxR::A).map_err(ce),
            Inner::R(s) => s.hpke_setup_r(kem_output, sk, pk, info).map(CtxR::R).map_err(ce),
        };
        self.rec.push(&self.label, false, || Ev::HpkeSetupR { pk: pk.as_ref().to_vec(), ok: r.is_ok() });
        r
    }

    fn kem_derive(&self, ikm: &[u8]) -> Result<(HpkeSecretKey, HpkePublicKey), CErr> {
        let r = disp!(self, s => s.kem_derive(ikm))?;
        self.rec.push(&self.label, true, || Ev::KemDerive { ikm: ikm.to_vec(), pk: r.1.as_ref().to_vec() });
        Ok(r)
    }

    fn kem_generate(&self) -> Result<(HpkeSecretKey, HpkePublicKey), CErr> {
        disp!(self, s => s.kem_generate())
    }

    fn kem_public_key_validate(&self, key: &HpkePublicKey) -> Result<(), CErr> {
        disp!(self, s => s.kem_public_key_validate(key))
    }

    fn random_bytes(&self, out: &mut [u8]) -> Result<(), CErr> {
        disp!(self, s => s.random_bytes(out))
    }

    fn signature_key_generate(&self) -> Result<(SignatureSecretKey, SignaturePublicKey), CErr> {
        disp!(self, s => s.signature_key_generate())
    }

    fn signature_key_derive_public(&self, sk: &SignatureSecretKey) -> Result<SignaturePublicKey, CErr> {
        disp!(self, s => s.signature_key_derive_public(sk))
    }

    fn sign(&self, sk: &SignatureSecretKey, data: &[u8]) -> Result<Vec<u8>, CErr> {
        let r = disp!(self, s => s.sign(sk, data))?;
        self.rec.push(&self.label, true, || Ev::Sign { len: data.len() });
        Ok(r)
    }

    fn verify(&self, pk: &SignaturePublicKey, sig: &[u8], data: &[u8]) -> Result<(), CErr> {
        let r = disp!(self, s => s.verify(pk, sig, data));
        self.rec.push(&self.label, true, || Ev::Verify { ok: r.is_ok() });
        r
    }
}
