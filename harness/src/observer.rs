//! C16: the external observer (ExternalClient / ExternalGroup) driven by the Obs* steps of a behaviour.
use crate::crypto::{Backend, DynCrypto, Recorder};
use crate::providers::VIdentity;
use crate::world::classify;
use mls_rs::external_client::builder::{ExternalBaseConfig, WithCryptoProvider, WithIdentityProvider};
use mls_rs::external_client::{ExternalClient, ExternalGroup, ExternalReceivedMessage};
use mls_rs::group::CommitEffect;
use mls_rs::MlsMessage;

pub type ExtCfg = WithCryptoProvider<DynCrypto, WithIdentityProvider<VIdentity, ExternalBaseConfig>>;

pub struct Observer {
    pub client: ExternalClient<ExtCfg>,
    pub group: Option<ExternalGroup<ExtCfg>>,
}

pub const NO_JITTER: u64 = 99999;

impl Observer {
    pub fn new(backend: Backend, jitter: u64, signer: Option<(mls_rs_core::crypto::SignatureSecretKey, mls_rs_core::identity::SigningIdentity)>) -> Observer {
        if let Some((sk, id)) = signer {
            let b = Self::base(backend).signer(sk, id);
            let client = if jitter == NO_JITTER { b.build() } else { b.max_epoch_jitter(jitter).build() };
            return Observer { client, group: None };
        }
        let b = Self::base(backend);
        let client = if jitter == NO_JITTER { b.build() } else { b.max_epoch_jitter(jitter).build() };
        Observer { client, group: None }
    }

    fn base(backend: Backend) -> mls_rs::external_client::builder::ExternalClientBuilder<ExtCfg> {
        ExternalClient::builder()
            .identity_provider({
                let v = VIdentity::default();
                v.reject.lock().unwrap().insert(b"rejected".to_vec());
                v
            })
            .crypto_provider(DynCrypto::new(backend, "observer", Recorder::new()))
            .extension_type(mls_rs::extension::ExtensionType::new(0xF0F0))
            .custom_proposal_types(Some(mls_rs::group::proposal::ProposalType::new(0xF0F1)))
            .extension_types([0xF0F2u16, 0xF0F3].into_iter().map(mls_rs::extension::ExtensionType::new))
    }

    pub fn join(&mut self, group_info: MlsMessage, tree: Option<mls_rs::group::ExportedTree<'static>>) -> String {
        match self.client.observe_group(group_info, tree, None) {
            Ok(g) => {
                self.group = Some(g);
                "ok".into()
            }
            Err(e) => classify(&e),
        }
    }

    /// process one message; the result class uses the vocabulary of the specification
    pub fn process(&mut self, m: MlsMessage) -> (String, bool) {
        let g = match self.group.as_mut() {
            Some(g) => g,
            None => return ("err:no-observer".into(), false),
        };
        match g.process_incoming_message(m) {
            Ok(ExternalReceivedMessage::Commit(d)) => match d.effect {
                CommitEffect::NewEpoch(_) | CommitEffect::ReInit(_) => ("ok".into(), true),
                CommitEffect::Removed { .. } => ("ok:removed".into(), false),
            },
            Ok(ExternalReceivedMessage::Proposal(_)) => ("ok".into(), false),
            Ok(ExternalReceivedMessage::Ciphertext(_)) => ("ok:ciphertext".into(), false),
            Ok(_) => ("ok:other".into(), false),
            Err(e) => (classify(&e), false),
        }
    }

    /// snapshot -> bytes -> snapshot -> group: must be the same observer
    pub fn snapshot_restore(&mut self) -> Result<(), String> {
        let g = self.group.as_ref().ok_or("no observer")?;
        let before_ctx = g.group_context().clone();
        let before_tree = g.export_tree().map_err(|e| format!("{e:?}"))?;
        let snap = g.snapshot();
        let bytes = snap.to_bytes().map_err(|e| format!("snapshot to_bytes: {e:?}"))?;
        let back = mls_rs::external_client::ExternalSnapshot::from_bytes(&bytes).map_err(|e| format!("snapshot from_bytes: {e:?}"))?;
        let g2 = self.client.load_group(back).map_err(|e| format!("load_group: {e:?}"))?;
        if g2.group_context() != &before_ctx {
            return Err("restored observer has a different group context".into());
        }
        if g2.export_tree().map_err(|e| format!("{e:?}"))? != before_tree {
            return Err("restored observer has a different tree".into());
        }
        self.group = Some(g2);
        Ok(())
    }
}
