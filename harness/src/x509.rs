//! C14 (X.509 half): the cases enumerated by TLC from spec/X509.tla are materialised as real certificates and
//! given to the three shipped chain validators.  The harness knows nothing about validity rules: it builds what
//! the universe describes, calls the validators and writes down their verdicts.
use mls_rs::CipherSuite;
use mls_rs_core::crypto::{CipherSuiteProvider, CryptoProvider, SignaturePublicKey, SignatureSecretKey};
use mls_rs_core::time::MlsTime;
use mls_rs_crypto_awslc::x509::{Certificate, CertificateValidator, X509Extension};
use mls_rs_identity_x509::{CertificateChain, DerCertificate, SubjectComponent, X509CredentialValidator};
use serde_json::{json, Value};
use std::collections::HashMap;
use std::io::Write;

const BASE: u64 = 1_700_000_000;
const UNIT: u64 = 1000;

fn at(t: u64) -> MlsTime { MlsTime::from(BASE + UNIT * t) }

pub struct Built {
    pub der: HashMap<String, DerCertificate>,
    pub leaf_keys: HashMap<String, SignaturePublicKey>,
}

pub fn build_universe(universe: &[Value]) -> Result<Built, String> {
    let suite = CipherSuite::P256_AES128;
    let cs = mls_rs_crypto_awslc::AwsLcCryptoProvider::default().cipher_suite_provider(suite).ok_or("suite")?;
    let mut keys: HashMap<String, (SignatureSecretKey, SignaturePublicKey)> = HashMap::new();
    for c in universe {
        for k in [c["key"].as_str().unwrap(), c["signer"].as_str().unwrap()] {
            if !keys.contains_key(k) {
                keys.insert(k.to_string(), cs.signature_key_generate().map_err(|e| format!("{e:?}"))?);
            }
        }
    }
    let mut der = HashMap::new();
    let mut leaf_keys = HashMap::new();
    for (n, c) in universe.iter().enumerate() {
        let e = |x: mls_rs_crypto_awslc::AwsLcCryptoError| format!("{x:?}");
        let mut cert = Certificate::new().map_err(e)?;
        cert.set_subject(&[SubjectComponent::CommonName(c["subj"].as_str().unwrap().to_string())]).map_err(e)?;
        cert.set_issuer(&[SubjectComponent::CommonName(c["iss"].as_str().unwrap().to_string())]).map_err(e)?;
        cert.set_public_key(suite, &keys[c["key"].as_str().unwrap()].1).map_err(e)?;
        cert.set_not_before(at(c["nb"].as_u64().unwrap())).map_err(e)?;
        cert.set_not_after(at(c["na"].as_u64().unwrap())).map_err(e)?;
        cert.set_serial_number(&[1 + n as u8]).map_err(e)?;
        cert.add_extension(&X509Extension::basic_constraints(true, c["ca"].as_bool().unwrap(), None).map_err(e)?).map_err(e)?;
        cert.sign(suite, &keys[c["signer"].as_str().unwrap()].0).map_err(e)?;
        let id = c["id"].as_str().unwrap().to_string();
        leaf_keys.insert(id.clone(), keys[c["key"].as_str().unwrap()].1.clone());
        der.insert(id, cert.to_der().map_err(e)?);
    }
    Ok(Built { der, leaf_keys })
}

fn verdict<E: std::fmt::Debug>(r: Result<SignaturePublicKey, E>, want_key: &SignaturePublicKey) -> (String, String) {
    match r {
        Ok(k) if &k == want_key => ("accept".into(), String::new()),
        Ok(_) => ("accept-wrong-key".into(), String::new()),
        Err(e) => ("reject".into(), format!("{e:?}").chars().take(90).collect()),
    }
}

/// run every case (lines of `cases`: {chain:[ids], anchors:[ids], t}) through the three validators
pub fn run(input: &str, out: &str, threads: usize) -> Result<Value, String> {
    let v: Value = serde_json::from_str(&std::fs::read_to_string(input).map_err(|e| e.to_string())?).map_err(|e| e.to_string())?;
    let universe = v["universe"].as_array().ok_or("universe")?.clone();
    let cases = v["cases"].as_array().ok_or("cases")?.clone();
    let built = std::sync::Arc::new(build_universe(&universe)?);
    let chunks: Vec<Vec<(usize, Value)>> = {
        let mut c: Vec<Vec<(usize, Value)>> = (0..threads).map(|_| vec![]).collect();
        for (i, x) in cases.into_iter().enumerate() { c[i % threads].push((i, x)); }
        c
    };
    let handles: Vec<_> = chunks.into_iter().map(|chunk| {
        let built = built.clone();
        std::thread::spawn(move || {
            let mut rows = vec![];
            // validators per anchor set (constructed once per thread)
            let mut cache: HashMap<String, (Result<CertificateValidator, String>, Result<mls_rs_crypto_openssl::x509::X509Validator, String>, Result<mls_rs_crypto_rustcrypto::x509::X509Validator, String>)> = HashMap::new();
            for (i, c) in chunk {
                let anchors: Vec<String> = c["anchors"].as_array().unwrap().iter().map(|a| a.as_str().unwrap().to_string()).collect();
                let key = anchors.join(",");
                let vals = cache.entry(key).or_insert_with(|| {
                    let ders: Vec<DerCertificate> = anchors.iter().map(|a| built.der[a].clone()).collect();
                    (CertificateValidator::new_der(&ders).map_err(|e| format!("{e:?}")),
                     mls_rs_crypto_openssl::x509::X509Validator::new(ders.clone()).map_err(|e| format!("{e:?}")),
                     mls_rs_crypto_rustcrypto::x509::X509Validator::new(ders).map_err(|e| format!("{e:?}")))
                });
                let ids: Vec<String> = c["chain"].as_array().unwrap().iter().map(|a| a.as_str().unwrap().to_string()).collect();
                let chain: CertificateChain = ids.iter().map(|a| built.der[a].clone()).collect::<Vec<_>>().into();
                // 99999 = X509.tla NoTime: no validation time is given
                let t = match c["t"].as_u64().unwrap() { 99999 => None, x => Some(at(x)) };
                let want_key = &built.leaf_keys[&ids[0]];
                let a = std::panic::catch_unwind(std::panic::AssertUnwindSafe(|| match &vals.0 { Ok(v) => verdict(v.validate(&chain, t), want_key), Err(e) => ("setup-error".into(), e.clone()) })).unwrap_or(("panic".into(), String::new()));
                let o = std::panic::catch_unwind(std::panic::AssertUnwindSafe(|| match &vals.1 { Ok(v) => verdict(v.validate_chain(&chain, t), want_key), Err(e) => ("setup-error".into(), e.clone()) })).unwrap_or(("panic".into(), String::new()));
                let r = std::panic::catch_unwind(std::panic::AssertUnwindSafe(|| match &vals.2 { Ok(v) => verdict(X509CredentialValidator::validate_chain(v, &chain, t), want_key), Err(e) => ("setup-error".into(), e.clone()) })).unwrap_or(("panic".into(), String::new()));
                rows.push(json!({"i": i, "chain": c["chain"], "anchors": c["anchors"], "t": c["t"], "verdict": c["verdict"], "class": c["class"],
                                 "awslc": a.0, "openssl": o.0, "rustcrypto": r.0, "why": [a.1, o.1, r.1]}));
            }
            rows
        })
    }).collect();
    let mut f = std::fs::File::create(out).map_err(|e| e.to_string())?;
    let mut n = 0usize;
    for h in handles {
        for r in h.join().map_err(|_| "thread")? {
            writeln!(f, "{}", r).map_err(|e| e.to_string())?;
            n += 1;
        }
    }
    Ok(json!({"cases": n}))
}
