//! C20: dump the implementation's tree arithmetic as ndjson rows for TreeMathTrace.tla.
use mls_rs::group::verif::tree_math as tm;
use rand::{rngs::StdRng, Rng, SeedableRng};
use serde_json::json;
use std::io::Write;

/// a panic of the code under test is data: the row says so and the check reports it
fn guarded(what: &str, n: u32, a: u32, b: u32, f: impl FnOnce() -> serde_json::Value) -> serde_json::Value {
    std::panic::catch_unwind(std::panic::AssertUnwindSafe(f)).unwrap_or_else(|_| json!({"k": "panic", "what": what, "n": n, "a": a, "b": b}))
}

fn node_row(n: u32, x: u32) -> serde_json::Value {
    guarded("node", n, x, 0, || node_row_inner(n, x))
}

fn node_row_inner(n: u32, x: u32) -> serde_json::Value {
    let in_tree = tm::is_in_tree(x, n);
    let dcp = tm::direct_copath(x, n);
    if !in_tree {
        return json!({"k":"node","n":n,"x":x,"inTree":false,"root":tm::root(n),
            "dcp": dcp.iter().map(|(p,c)| vec![*p,*c]).collect::<Vec<_>>()});
    }
    let ps = tm::parent_sibling(x, n);
    let sub = tm::subtree(x);
    json!({"k":"node","n":n,"x":x,"inTree":true,"root":tm::root(n),
        "leaf": tm::is_leaf(x),
        "left": tm::left(x).map(|v| v as i64).unwrap_or(-1),
        "right": tm::right(x).map(|v| v as i64).unwrap_or(-1),
        "parent": ps.map(|v| v.0 as i64).unwrap_or(-1),
        "sibling": ps.map(|v| v.1 as i64).unwrap_or(-1),
        "dcp": dcp.iter().map(|(p,c)| vec![*p,*c]).collect::<Vec<_>>(),
        "sub": [sub.0, sub.1]})
}

fn pair_row(n: u32, a: u32, b: u32) -> serde_json::Value {
    guarded("pair", n, a, b, || pair_row_inner(n, a, b))
}

fn pair_row_inner(n: u32, a: u32, b: u32) -> serde_json::Value {
    json!({"k":"pair","n":n,"a":a,"b":b,
        "lvlLeaf": tm::leaf_lca_level(a, b),
        "lvlNode": tm::leaf_lca_level(2*a, 2*b)})
}

pub struct Stats { pub panics: Vec<serde_json::Value>, pub rows: u64, pub node_rows: u64, pub pair_rows: u64, pub bfs_rows: u64, pub bound_rows: u64, pub samples: Vec<serde_json::Value> }

/// max_log: exhaustive node rows for n = 2^0..2^max_log; pair_log: all leaf pairs up to 2^pair_log;
/// samples: number of sampled (n, x) and pairs for sizes up to 2^24.
pub fn dump(out: &str, max_log: u32, pair_log: u32, samples: u32, seed: u64) -> std::io::Result<Stats> {
    let mut f = std::io::BufWriter::new(std::fs::File::create(out)?);
    let mut st = Stats { panics: vec![], rows: 0, node_rows: 0, pair_rows: 0, bfs_rows: 0, bound_rows: 0, samples: vec![] };
    let mut rng = StdRng::seed_from_u64(seed);
    let mut emit = |v: serde_json::Value, st: &mut Stats| -> std::io::Result<()> {
        if st.samples.len() < 6 && (st.rows % 997 == 3 || st.rows < 2) { st.samples.push(v.clone()); }
        if v["k"] == "panic" && st.panics.len() < 20 { st.panics.push(v.clone()); }
        st.rows += 1;
        writeln!(f, "{}", v)
    };
    for k in 0..=max_log {
        let n = 1u32 << k;
        // every node in the tree and four just outside
        for x in 0..(2 * n - 1 + 4) {
            emit(node_row(n, x), &mut st)?; st.node_rows += 1;
        }
        if k <= 8 {
            let order: Vec<usize> = tm::bfs_top_down(n as usize);
            emit(json!({"k":"bfs","n":n,"order":order}), &mut st)?; st.bfs_rows += 1;
        }
    }
    for k in 0..=pair_log {
        let n = 1u32 << k;
        for a in 0..n { for b in 0..n {
            emit(pair_row(n, a, b), &mut st)?; st.pair_rows += 1;
        } }
    }
    // sampled sizes up to the 2^24 leaf limit, biased to level boundaries
    for _ in 0..samples {
        let k = rng.random_range(13..=24u32);
        let n = 1u32 << k;
        let width = 2 * (n as u64) - 1;
        let x: u64 = match rng.random_range(0..6u32) {
            0 => rng.random_range(0..width),
            1 => { let j = rng.random_range(1..=k); ((1u64 << j) - 1).min(width - 1) }            // left spine
            2 => { let j = rng.random_range(0..=k); width - 1 - ((1u64 << j) - 1).min(width - 1) } // right edge
            3 => width + rng.random_range(0..4u64),                                                // just outside
            4 => { let j = rng.random_range(1..=k); let m = rng.random_range(0..(n as u64 >> (j-1)).max(1)); ((m << j) | ((1u64 << (j-1)) - 1)).min(width - 1) }
            _ => 2 * rng.random_range(0..n as u64),
        };
        emit(node_row(n, x as u32), &mut st)?; st.node_rows += 1;
        let a = rng.random_range(0..n); 
        let b = match rng.random_range(0..3u32) { 0 => rng.random_range(0..n), 1 => a ^ (1 << rng.random_range(0..k)), _ => (a as u64 + 1).min(n as u64 - 1) as u32 };
        emit(pair_row(n, a, b), &mut st)?; st.pair_rows += 1;
    }
    for x in [0u32, 1, (1<<24)-2, (1<<24)-1, 1<<24, (1<<24)+1, u32::MAX] {
        emit(json!({"k":"bound","x": x as i64 % (1i64<<31), "ok": tm::leaf_index_ok(x), "raw": x.to_string()}), &mut st)?; st.bound_rows += 1;
    }
    Ok(st)
}
