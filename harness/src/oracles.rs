//! Concrete oracles evaluated on the real objects (DESIGN section 5): independent tree hash,
//! private-key probes, validation by an outside observer, cross-member agreement.
use crate::crypto::{Backend, DynCrypto, Recorder};
use crate::providers::VIdentity;
use crate::world::*;
use mls_rs::external_client::ExternalClient;
use mls_rs::group::{Group, Node};
use mls_rs::{CipherSuiteProvider, CryptoProvider};
use mls_rs_codec::MlsEncode;

// ---- structural tree arithmetic (independent of the crate's bit tricks) ----
pub fn next_pow2(n: usize) -> usize {
    let mut p = 1;
    while p < n {
        p *= 2;
    }
    p
}
pub fn leaf_count_of(len: usize) -> usize {
    next_pow2(len / 2 + 1)
}
fn root_of(lo: usize, s: usize) -> usize {
    2 * lo + s - 1
}
/// proper ancestors of node x, nearest first, in the tree over n leaves
pub fn direct_path(x: usize, n: usize) -> Vec<usize> {
    let (mut lo, mut s) = (0usize, n);
    let mut anc = vec![];
    loop {
        let r = root_of(lo, s);
        if r == x {
            break;
        }
        anc.push(r);
        s /= 2;
        if x > r {
            lo += s;
        }
        if s == 0 {
            panic!("node {x} not in tree of {n} leaves");
        }
    }
    anc.reverse();
    anc
}

// ---- C08: tree hash recomputed from the exported nodes (RFC 9420 7.8) ----
fn put_opt_bytes(out: &mut Vec<u8>, v: Option<Vec<u8>>) {
    match v {
        None => out.push(0),
        Some(b) => {
            out.push(1);
            out.extend_from_slice(&b);
        }
    }
}
fn put_vec(out: &mut Vec<u8>, b: &[u8]) {
    // MLS variable-length vector header (RFC 9420 2.1.2)
    let l = b.len();
    if l < 64 {
        out.push(l as u8);
    } else if l < 16384 {
        out.extend_from_slice(&((l as u16) | 0x4000).to_be_bytes());
    } else {
        out.extend_from_slice(&((l as u32) | 0x8000_0000).to_be_bytes());
    }
    out.extend_from_slice(b);
}

fn tree_hash_rec<P: CipherSuiteProvider>(cs: &P, nodes: &[Option<Node>], lo: usize, s: usize) -> Result<Vec<u8>, String> {
    let x = root_of(lo, s);
    let mut input = vec![];
    if s == 1 {
        input.push(1u8); // NodeType::leaf
        input.extend_from_slice(&(lo as u32).to_be_bytes());
        let leaf = match nodes.get(x).and_then(|n| n.as_ref()) {
            Some(Node::Leaf(l)) => Some(l.mls_encode_to_vec().map_err(|e| e.to_string())?),
            Some(Node::Parent(_)) => return Err(format!("parent node at leaf position {x}")),
            None => None,
        };
        put_opt_bytes(&mut input, leaf);
    } else {
        input.push(2u8); // NodeType::parent
        let parent = match nodes.get(x).and_then(|n| n.as_ref()) {
            Some(Node::Parent(p)) => Some(p.mls_encode_to_vec().map_err(|e| e.to_string())?),
            Some(Node::Leaf(_)) => return Err(format!("leaf node at parent position {x}")),
            None => None,
        };
        put_opt_bytes(&mut input, parent);
        let l = tree_hash_rec(cs, nodes, lo, s / 2)?;
        let r = tree_hash_rec(cs, nodes, lo + s / 2, s / 2)?;
        put_vec(&mut input, &l);
        put_vec(&mut input, &r);
    }
    cs.hash(&input).map_err(|e| format!("{e:?}"))
}

pub fn independent_tree_hash<P: CipherSuiteProvider>(cs: &P, nodes: &[Option<Node>]) -> Result<Vec<u8>, String> {
    let n = leaf_count_of(nodes.len());
    tree_hash_rec(cs, nodes, 0, n)
}

/// C08: structural facts checked directly on the exported nodes.
pub fn tree_shape_ok(nodes: &[Option<Node>]) -> Result<(), String> {
    if let Some(None) = nodes.last() {
        return Err("exported tree ends in a blank node".into());
    }
    for (x, n) in nodes.iter().enumerate() {
        match (x % 2, n) {
            (0, Some(Node::Parent(_))) => return Err(format!("parent at even index {x}")),
            (1, Some(Node::Leaf(_))) => return Err(format!("leaf at odd index {x}")),
            _ => {}
        }
    }
    Ok(())
}

/// C08 (2): the exported tree and a signed GroupInfo pass the from-scratch validation of an
/// outside observer (ExternalClient::observe_group = joiner validation path).
pub fn observer_accepts(w: &World, party: &str, g: &Group<Cfg>) -> Result<(), String> {
    let p = &w.parties[party];
    let ext = ExternalClient::builder()
        .crypto_provider(DynCrypto::new(p.backend, "observer", Recorder::new()))
        .identity_provider(VIdentity::default())
        .build();
    for with_tree in [true, false] {
        let gi = g.group_info_message(with_tree).map_err(|e| format!("group_info_message({with_tree}): {e:?}"))?;
        let tree = if with_tree { None } else { Some(g.export_tree()) };
        ext.observe_group(gi, tree, None)
            .map_err(|e| format!("observer rejects exported tree + GroupInfo (tree in ext={with_tree}): {e:?}"))?;
    }
    Ok(())
}

/// C09: the stored secret key opens what is sealed to `pk`.
pub fn key_pair_matches(cs: &impl CipherSuiteProvider, sk: &[u8], pk: &[u8]) -> bool {
    let pk = pk.to_vec().into();
    let sk = sk.to_vec().into();
    match cs.hpke_seal(&pk, b"verif-probe", None, b"probe") {
        Ok(ct) => matches!(cs.hpke_open(&ct, &sk, &pk, b"verif-probe", None), Ok(pt) if pt.as_slice() == b"probe"),
        Err(_) => false,
    }
}

pub fn backend_suite(b: Backend, cs: mls_rs::CipherSuite) -> crate::crypto::DynSuite {
    DynCrypto::new(b, "probe", Recorder::new()).cipher_suite_provider(cs).unwrap()
}

/// C01: concrete agreement between two members the model places in the same epoch.
pub fn agree(a: &Group<Cfg>, b: &Group<Cfg>) -> Result<(), String> {
    let ca = a.context().mls_encode_to_vec().map_err(|e| e.to_string())?;
    let cb = b.context().mls_encode_to_vec().map_err(|e| e.to_string())?;
    if ca != cb {
        return Err(format!("group contexts differ: epoch {} vs {}", a.context().epoch, b.context().epoch));
    }
    if a.export_tree().to_bytes().map_err(|e| format!("{e:?}"))? != b.export_tree().to_bytes().map_err(|e| format!("{e:?}"))? {
        return Err("exported ratchet trees differ".into());
    }
    let ea = a.epoch_authenticator().map_err(|e| format!("{e:?}"))?;
    let eb = b.epoch_authenticator().map_err(|e| format!("{e:?}"))?;
    if ea.as_bytes() != eb.as_bytes() {
        return Err("epoch authenticators differ".into());
    }
    for (label, ctx, len) in [(&b"verif"[..], &b""[..], 32usize), (&b"x"[..], &b"some context"[..], 16), (&b""[..], &b"c"[..], 64)] {
        let xa = a.export_secret(label, ctx, len).map_err(|e| format!("{e:?}"))?;
        let xb = b.export_secret(label, ctx, len).map_err(|e| format!("{e:?}"))?;
        if xa.as_bytes() != xb.as_bytes() {
            return Err(format!("exported secrets differ for label {:?}", label));
        }
    }
    let ra: Vec<_> = a.roster().members_iter().map(|m| (m.index, m.signing_identity.clone())).collect();
    let rb: Vec<_> = b.roster().members_iter().map(|m| (m.index, m.signing_identity.clone())).collect();
    if ra != rb {
        return Err("rosters differ".into());
    }
    Ok(())
}

/// C01: what one member encrypts the other decrypts (on clones, so ratchets are not consumed).
pub fn cross_decrypt(a: &Group<Cfg>, b: &Group<Cfg>, sender_rolled_back: bool) -> Result<(), String> {
    let mut a2 = a.clone();
    let mut b2 = b.clone();
    // pending proposals make the library refuse to send application data (commit required)
    a2.clear_proposal_cache();
    let payload = b"verif cross decrypt";
    let m = a2.encrypt_application_message(payload, b"ad".to_vec()).map_err(|e| format!("encrypt: {e:?}"))?;
    let r = match b2.process_incoming_message(m) {
        // the sender is more than the out-of-order window ahead of this receiver: inconclusive
        Err(mls_rs::error::MlsError::InvalidFutureGeneration(_)) => return Ok(()),
        // the sender was reloaded from an older snapshot and re-uses a generation this receiver has
        // already consumed (only the random reuse guard protects that case): inconclusive
        Err(mls_rs::error::MlsError::KeyMissing(_)) if sender_rolled_back => return Ok(()),
        r => r,
    };
    match r.map_err(|e| format!("peer cannot decrypt: {e:?}"))? {
        mls_rs::group::ReceivedMessage::ApplicationMessage(d) => {
            if d.data() != payload || d.authenticated_data != b"ad" || d.sender_index != a.current_member_index() {
                return Err("decrypted message reported with wrong payload / authenticated data / sender".into());
            }
            Ok(())
        }
        other => Err(format!("unexpected result for application message: {other:?}")),
    }
}
