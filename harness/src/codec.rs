//! C12: rows for CodecTrace.tla (primitive decoders on an exhaustive small domain, MLSMessage
//! accept/reject on authentic and mutated byte strings) and the robustness oracles evaluated in
//! the harness itself (no panic, re-encoding equals the consumed bytes, reported length equals
//! written length, allocation bounded by a multiple of the input size).
use crate::world::*;
use mls_rs::MlsMessage;
use mls_rs_codec::{MlsDecode, MlsEncode, MlsSize, VarInt};
use rand::{rngs::StdRng, Rng, SeedableRng};
use serde_json::{json, Value};
use std::alloc::{GlobalAlloc, Layout, System};
use std::cell::Cell;
use std::io::Write;

// ---- counting allocator: bytes requested by the current thread inside a measured window ----
pub struct Counting;
thread_local! {
    static WINDOW: Cell<bool> = const { Cell::new(false) };
    static TOTAL: Cell<usize> = const { Cell::new(0) };
    static BIGGEST: Cell<usize> = const { Cell::new(0) };
}
unsafe impl GlobalAlloc for Counting {
    unsafe fn alloc(&self, l: Layout) -> *mut u8 {
        let _ = WINDOW.try_with(|w| {
            if w.get() {
                let _ = TOTAL.try_with(|t| t.set(t.get() + l.size()));
                let _ = BIGGEST.try_with(|b| b.set(b.get().max(l.size())));
            }
        });
        System.alloc(l)
    }
    unsafe fn dealloc(&self, p: *mut u8, l: Layout) {
        System.dealloc(p, l)
    }
    unsafe fn realloc(&self, p: *mut u8, l: Layout, n: usize) -> *mut u8 {
        let _ = WINDOW.try_with(|w| {
            if w.get() && n > l.size() {
                let _ = TOTAL.try_with(|t| t.set(t.get() + (n - l.size())));
                let _ = BIGGEST.try_with(|b| b.set(b.get().max(n)));
            }
        });
        System.realloc(p, l, n)
    }
}
fn measured<T>(f: impl FnOnce() -> T) -> (T, usize, usize) {
    TOTAL.with(|t| t.set(0));
    BIGGEST.with(|b| b.set(0));
    WINDOW.with(|w| w.set(true));
    let r = f();
    WINDOW.with(|w| w.set(false));
    (r, TOTAL.with(|t| t.get()), BIGGEST.with(|b| b.get()))
}

fn res<T>(r: Result<T, mls_rs_codec::Error>, before: usize, after: usize, f: impl FnOnce(T) -> Value) -> Value {
    match r {
        Ok(v) => json!({"ok": true, "v": f(v), "n": before - after}),
        Err(_) => json!({"ok": false, "v": 0, "n": 0}),
    }
}

fn prim_row(s: &[u8]) -> Value {
    macro_rules! dec {
        ($t:ty, $f:expr) => {{
            let mut r = s;
            let x = <$t>::mls_decode(&mut r);
            res(x, s.len(), r.len(), $f)
        }};
    }
    let varint = dec!(VarInt, |v: VarInt| json!(u32::from(v)));
    let u16v = dec!(u16, |v: u16| json!(v));
    // TLC integers are 32-bit: a u32 travels as two 16-bit halves
    let u32v = dec!(u32, |v: u32| json!([v >> 16, v & 0xffff]));
    let opaque = {
        let mut r = s;
        let x: Result<Vec<u8>, _> = mls_rs_codec::byte_vec::mls_decode(&mut r);
        res(x, s.len(), r.len(), |v| json!(v))
    };
    let vec16 = dec!(Vec<u16>, |v: Vec<u16>| json!(v));
    let opt8 = dec!(Option<u8>, |v: Option<u8>| json!(v.map(|x| vec![x]).unwrap_or_default()));
    json!({"k": "prim", "s": s, "varint": varint, "u16": u16v, "u32": u32v, "opaque": opaque, "vec16": vec16, "opt8": opt8})
}

pub struct Stats {
    pub prim: u64,
    pub enc: u64,
    pub msgs: u64,
    pub authentic: u64,
    pub accepted_mutants: u64,
    pub max_alloc_ratio: f64,
    pub viols: Vec<Value>,
    pub samples: Vec<Value>,
    pub kinds: std::collections::BTreeMap<String, u64>,
}

/// Robustness oracles on one input; returns (accepted-and-fully-consumed, violation?)
fn probe(bytes: &[u8], st: &mut Stats) -> bool {
    let input = bytes.to_vec();
    let out = std::panic::catch_unwind(|| {
        measured(|| {
            let mut r = &input[..];
            let m = MlsMessage::mls_decode(&mut r);
            (m, input.len() - r.len())
        })
    });
    match out {
        Err(_) => {
            st.viols.push(json!({"kind": "decode-panic", "what": "MlsMessage decoding panicked", "input": hex::encode(bytes)}));
            false
        }
        Ok(((m, consumed), total, biggest)) => {
            let ratio = total as f64 / (bytes.len().max(64)) as f64;
            if ratio > st.max_alloc_ratio {
                st.max_alloc_ratio = ratio;
            }
            // no allocation driven by an unchecked length field: a single request never exceeds a small
            // multiple of the input, the total stays within a fixed multiple plus a constant
            if biggest > 16 * bytes.len() + 4096 || total > 64 * bytes.len() + 65536 {
                st.viols.push(json!({"kind": "decode-alloc", "what": format!("decoding {} bytes allocated {} bytes (largest request {})", bytes.len(), total, biggest), "input": hex::encode(bytes)}));
            }
            match m {
                Err(_) => false,
                Ok(m) => {
                    // accepted: re-encoding yields exactly the consumed bytes, reported length = written length
                    match m.mls_encode_to_vec() {
                        Ok(re) => {
                            if re != bytes[..consumed] {
                                st.viols.push(json!({"kind": "reencode-differs", "what": "an accepted byte string does not re-encode to the bytes consumed", "input": hex::encode(bytes)}));
                            }
                            if m.mls_encoded_len() != re.len() {
                                st.viols.push(json!({"kind": "encoded-len", "what": format!("mls_encoded_len {} but {} bytes written", m.mls_encoded_len(), re.len()), "input": hex::encode(bytes)}));
                            }
                        }
                        Err(e) => st.viols.push(json!({"kind": "reencode-fails", "what": format!("accepted value cannot be encoded: {e:?}"), "input": hex::encode(bytes)})),
                    }
                    consumed == bytes.len()
                }
            }
        }
    }
}

/// vector-of-optional-nodes bytes with `k` blank nodes (one 0x00 byte each) appended and the length header adjusted
pub fn append_blank_nodes(tree: &[u8], k: usize) -> Option<Vec<u8>> {
    let f = *tree.first()?;
    let (len, hdr) = match f >> 6 {
        0 => ((f & 0x3f) as usize, 1),
        1 => ((((f & 0x3f) as usize) << 8) | *tree.get(1)? as usize, 2),
        2 => ((((f & 0x3f) as usize) << 24) | ((*tree.get(1)? as usize) << 16) | ((*tree.get(2)? as usize) << 8) | *tree.get(3)? as usize, 4),
        _ => return None,
    };
    if hdr + len != tree.len() { return None; }
    let n = len + k;
    let mut o = vec![];
    if n < 64 { o.push(n as u8); } else if n < 16384 { o.extend_from_slice(&((n as u16) | 0x4000).to_be_bytes()); } else { o.extend_from_slice(&((n as u32) | 0x8000_0000).to_be_bytes()); }
    o.extend_from_slice(&tree[hdr..]);
    o.extend(std::iter::repeat(0u8).take(k));
    Some(o)
}

fn authentic_messages(seed: u64, viols: &mut Vec<Value>) -> Result<Vec<(String, Vec<u8>)>, String> {
    let mut out: Vec<(String, Vec<u8>)> = vec![];
    for enc in [false, true] {
        let mut opts = Opts::default();
        opts.encrypt_controls = enc;
        opts.suite = if seed % 2 == 0 { 1 } else { 2 };
        opts.single_welcome = seed % 3 != 0;
        let names: Vec<String> = (1..=4).map(|i| format!("p{i}")).collect();
        let mut w = World::new(opts, &names, "p1")?;
        let e = |x: mls_rs::error::MlsError| format!("{x:?}");
        let mut kps = vec![];
        for n in ["p2", "p3", "p4"] {
            let kp = w.parties[n].client.generate_key_package_message(Default::default(), Default::default(), None).map_err(e)?;
            out.push(("key_package".into(), kp.to_bytes().map_err(e)?));
            kps.push(kp);
        }
        let c1 = {
            let g = w.parties.get_mut("p1").unwrap().group.as_mut().unwrap();
            let c = g.commit_builder().add_member(kps[0].clone()).map_err(e)?.add_member(kps[1].clone()).map_err(e)?.build().map_err(e)?;
            g.apply_pending_commit().map_err(e)?;
            c
        };
        out.push(("commit".into(), c1.commit_message.to_bytes().map_err(e)?));
        for wm in &c1.welcome_messages {
            out.push(("welcome".into(), wm.to_bytes().map_err(e)?));
        }
        if let Some(t) = &c1.ratchet_tree {
            let tb = t.to_bytes().map_err(e)?;
            // state values: exported tree round trip
            let back = mls_rs::group::ExportedTree::from_bytes(&tb).map_err(e)?;
            if back.to_bytes().map_err(e)? != tb {
                return Err("exported tree does not round-trip".into());
            }
            // a well-formed node vector that ends in blank nodes: decoding fails, or yields a value that re-encodes
            // to exactly the bytes consumed
            for k in 1..=3usize {
                if let Some(padded) = append_blank_nodes(&tb, k) {
                    if let Ok(t2) = mls_rs::group::ExportedTree::from_bytes(&padded) {
                        match t2.to_bytes() {
                            Ok(re) if re == padded => {}
                            Ok(re) => viols.push(json!({"kind": "reencode-differs", "what": format!("ExportedTree::from_bytes accepts {} bytes (a tree with {k} trailing blank nodes) and re-encodes to {} bytes", padded.len(), re.len()), "input": hex::encode(&padded)})),
                            Err(x) => viols.push(json!({"kind": "reencode-fails", "what": format!("accepted exported tree cannot be encoded: {x:?}"), "input": hex::encode(&padded)})),
                        }
                    }
                }
            }
        }
        for (i, n) in ["p2", "p3"].iter().enumerate() {
            let wm = if c1.welcome_messages.len() > 1 { &c1.welcome_messages[i] } else { &c1.welcome_messages[0] };
            let (g, _) = w.parties[*n].client.join_group(None, wm, None).map_err(e)?;
            w.parties.get_mut(*n).unwrap().group = Some(g);
        }
        let (prop, upd, app, gi, c2) = {
            let g = w.parties.get_mut("p2").unwrap().group.as_mut().unwrap();
            let prop = g.propose_add(kps[2].clone(), b"ad".to_vec()).map_err(e)?;
            let upd = g.propose_update(vec![]).map_err(e)?;
            g.clear_proposal_cache();
            let app = g.encrypt_application_message(b"hello world", b"aad".to_vec()).map_err(e)?;
            let gi = g.group_info_message(true).map_err(e)?;
            let c2 = g.commit_builder().remove_member(2).map_err(e)?.build().map_err(e)?;
            (prop, upd, app, gi, c2)
        };
        out.push(("proposal_add".into(), prop.to_bytes().map_err(e)?));
        out.push(("proposal_update".into(), upd.to_bytes().map_err(e)?));
        out.push(("application".into(), app.to_bytes().map_err(e)?));
        out.push(("group_info".into(), gi.to_bytes().map_err(e)?));
        out.push(("commit_path".into(), c2.commit_message.to_bytes().map_err(e)?));
    }
    Ok(out)
}

pub fn dump(out: &str, seed: u64, mutants_per_msg: usize, alphabet_len: usize) -> Result<Stats, String> {
    let mut f = std::io::BufWriter::new(std::fs::File::create(out).map_err(|e| e.to_string())?);
    let mut st = Stats { prim: 0, enc: 0, msgs: 0, authentic: 0, accepted_mutants: 0, max_alloc_ratio: 0.0, viols: vec![], samples: vec![], kinds: Default::default() };
    let mut rng = StdRng::seed_from_u64(seed);
    // 1. primitive decoders: every byte string of length <= alphabet_len over a boundary alphabet
    let alpha: [u8; 11] = [0x00, 0x01, 0x02, 0x3f, 0x40, 0x41, 0x7f, 0x80, 0xbf, 0xc0, 0xff];
    let mut cur: Vec<Vec<u8>> = vec![vec![]];
    for _ in 0..=alphabet_len {
        for s in &cur {
            let r = prim_row(s);
            if st.samples.len() < 2 && s.len() == 3 && s[0] == 0x40 {
                st.samples.push(r.clone());
            }
            writeln!(f, "{}", r).map_err(|e| e.to_string())?;
            st.prim += 1;
        }
        if cur[0].len() == alphabet_len {
            break;
        }
        cur = cur.iter().flat_map(|s| alpha.iter().map(move |a| { let mut t = s.clone(); t.push(*a); t })).collect();
    }
    // 2. encoder: the length header written for boundary values
    for n in [0u32, 1, 63, 64, 65, 255, 256, 16383, 16384, 16385, 65535, 65536, 1 << 24, (1 << 30) - 1] {
        let v = VarInt::try_from(n).map_err(|e| format!("{e:?}"))?;
        let enc = v.mls_encode_to_vec().map_err(|e| format!("{e:?}"))?;
        if v.mls_encoded_len() != enc.len() {
            st.viols.push(json!({"kind": "encoded-len", "what": format!("VarInt {n}: mls_encoded_len {} but {} bytes written", v.mls_encoded_len(), enc.len()), "input": ""}));
        }
        writeln!(f, "{}", json!({"k": "enc", "n": n, "enc": enc})).map_err(|e| e.to_string())?;
        st.enc += 1;
    }
    // 3. messages: authentic and mutated
    let mut tree_viols: Vec<Value> = vec![];
    let msgs = authentic_messages(seed, &mut tree_viols)?;
    st.viols.extend(tree_viols);
    for (kind, bytes) in msgs.iter() {
        *st.kinds.entry(kind.clone()).or_insert(0) += 1;
        st.authentic += 1;
        // round trip of a produced value
        let m = MlsMessage::from_bytes(bytes).map_err(|e| format!("authentic {kind} rejected: {e:?}"))?;
        if m.to_bytes().map_err(|e| format!("{e:?}"))? != *bytes {
            st.viols.push(json!({"kind": "roundtrip", "what": format!("{kind}: decode(encode(v)) re-encodes differently"), "input": hex::encode(bytes)}));
        }
        let mut variants: Vec<Vec<u8>> = vec![bytes.clone()];
        // every truncation in the framing region and a sample beyond; trailing garbage
        for t in 0..bytes.len().min(48) {
            variants.push(bytes[..t].to_vec());
        }
        let mut tr = bytes.clone();
        tr.push(0);
        variants.push(tr);
        // every byte of the framing region set to boundary values (length prefixes, discriminants)
        for i in 0..bytes.len().min(40) {
            for v in [0x00u8, 0x01, 0x3f, 0x40, 0x7f, 0x80, 0xc0, 0xff, bytes[i].wrapping_add(1), bytes[i].wrapping_sub(1)] {
                if v != bytes[i] {
                    let mut b = bytes.clone();
                    b[i] = v;
                    variants.push(b);
                }
            }
        }
        // non-minimal re-encoding of the first one-byte length prefix after the header
        for i in 4..bytes.len().min(64) {
            if bytes[i] < 0x40 && bytes[i] as usize + i < bytes.len() {
                let mut b = bytes[..i].to_vec();
                b.extend_from_slice(&[0x40, bytes[i]]);
                b.extend_from_slice(&bytes[i + 1..]);
                variants.push(b);
                break;
            }
        }
        // discriminants, presence flags and length prefixes anywhere in the body: small values at random positions
        for _ in 0..mutants_per_msg * 2 {
            let i = rng.random_range(0..bytes.len());
            let v = [0u8, 1, 2, 3, 4, 5, 6, 7, 8, 0x3f, 0x40, 0x80, 0xff][rng.random_range(0..13usize)];
            if v != bytes[i] {
                let mut b = bytes.clone();
                b[i] = v;
                variants.push(b);
            }
        }
        // a slice of the message repeated in place (duplicate list entries) or removed (missing fields)
        for _ in 0..mutants_per_msg / 4 {
            let i = rng.random_range(0..bytes.len());
            let l = rng.random_range(1..=(bytes.len() - i).min(40));
            let mut b = bytes[..i + l].to_vec();
            if rng.random_bool(0.5) { b.extend_from_slice(&bytes[i..i + l]); }
            else { b.truncate(i); }
            b.extend_from_slice(&bytes[i + l..]);
            variants.push(b);
        }
        // random single-bit flips and random truncations anywhere
        for _ in 0..mutants_per_msg {
            let mut b = bytes.clone();
            match rng.random_range(0..4u32) {
                0 => { let i = rng.random_range(0..b.len()); b[i] ^= 1 << rng.random_range(0..8u32); }
                1 => { let t = rng.random_range(0..b.len()); b.truncate(t); }
                2 => { let i = rng.random_range(0..b.len()); b[i] = rng.random(); }
                _ => { let i = rng.random_range(0..b.len()); let j = rng.random_range(0..b.len()); b.swap(i, j); }
            }
            variants.push(b);
        }
        for (vi, b) in variants.iter().enumerate() {
            let acc = probe(b, &mut st);
            if acc && vi > 0 && b != bytes {
                st.accepted_mutants += 1;
            }
            st.msgs += 1;
            // TLC gets the framing-complete wire formats and a sample of the rest (bounded row size)
            let wf = if b.len() >= 4 { u16::from_be_bytes([b[2], b[3]]) } else { 0 };
            let _ = wf;
            if b.len() <= 1500 {
                writeln!(f, "{}", json!({"k": "msg", "kind": kind, "s": b, "accepted": acc})).map_err(|e| e.to_string())?;
            }
        }
    }
    // 4. purely random strings
    for _ in 0..(mutants_per_msg * 20) {
        let n = rng.random_range(0..64usize);
        let mut b: Vec<u8> = (0..n).map(|_| rng.random()).collect();
        if n >= 4 && rng.random_bool(0.7) {
            b[0] = 0;
            b[1] = 1;
            b[2] = 0;
            b[3] = rng.random_range(1..=5u8);
        }
        let acc = probe(&b, &mut st);
        st.msgs += 1;
        writeln!(f, "{}", json!({"k": "msg", "kind": "random", "s": b, "accepted": acc})).map_err(|e| e.to_string())?;
    }
    Ok(st)
}
