//! C14 (primitive half): one table row per (cipher suite, operation, input) with the result of every shipped
//! provider that supports the suite.  Deterministic operations record their output bytes; randomised ones
//! (signatures, HPKE) record the result of checking what provider A produced with provider B, for every ordered
//! pair.  spec/CryptoContract.tla states what the rows must satisfy; the harness only records.
use crate::crypto::{Backend, DynCrypto, DynSuite, Recorder};
use mls_rs::CipherSuite;
use mls_rs_core::crypto::{CipherSuiteProvider, CryptoProvider, HpkeCiphertext, HpkeContextR, HpkeContextS, HpkePsk, HpkePublicKey, SignaturePublicKey};
use serde_json::{json, Value};
use std::io::Write;

fn bname(b: Backend) -> &'static str {
    match b { Backend::Openssl => "openssl", Backend::AwsLc => "awslc", Backend::RustCrypto => "rustcrypto" }
}

fn pat(len: usize, seed: u8) -> Vec<u8> { (0..len).map(|i| (i as u8).wrapping_mul(31).wrapping_add(seed)).collect() }

fn res<T, E>(r: Result<T, E>, f: impl Fn(&T) -> String) -> (String, String) {
    match r { Ok(v) => ("ok".into(), f(&v)), Err(_) => ("err".into(), String::new()) }
}

struct Table { rows: Vec<Value> }
impl Table {
    fn row(&mut self, suite: u16, op: &str, input: String, kind: &str, results: Vec<(String, (String, String))>) {
        self.rows.push(json!({"suite": suite, "op": op, "input": input, "kind": kind,
            "results": results.into_iter().map(|(p, (st, out))| json!({"by": p, "status": st, "out": out})).collect::<Vec<_>>()}));
    }
}

pub fn dump(out: &str, seed: u64) -> Result<Value, String> {
    let mut t = Table { rows: vec![] };
    let mut suites_done = vec![];
    std::panic::set_hook(Box::new(|_| {}));
    for s in 1u16..=7 {
        let suite = CipherSuite::from(s);
        let provs: Vec<(Backend, DynSuite)> = Backend::all().iter().filter_map(|b| DynCrypto::new(*b, bname(*b), Recorder::new()).cipher_suite_provider(suite).map(|p| (*b, p))).collect();
        if provs.len() < 2 { continue; }
        suites_done.push(json!({"suite": s, "providers": provs.iter().map(|p| bname(p.0)).collect::<Vec<_>>()}));
        let each = |f: &dyn Fn(&DynSuite) -> (String, String)| -> Vec<(String, (String, String))> {
            provs.iter().map(|(b, p)| (bname(*b).to_string(), std::panic::catch_unwind(std::panic::AssertUnwindSafe(|| f(p))).unwrap_or(("panic".into(), String::new())))).collect()
        };
        let hx = |v: &Vec<u8>| hex::encode(v);
        let hl = provs[0].1.kdf_extract_size();
        let kl = provs[0].1.aead_key_size();
        let nl = provs[0].1.aead_nonce_size();
        let lens = [0usize, 1, 31, 32, 33, 55, 56, 63, 64, 65, 111, 112, 127, 128, 129, 1000];
        let sd = seed as u8;
        // --- deterministic primitives
        for l in lens { t.row(s, "hash", format!("len{l}"), "det", each(&|p| res(p.hash(&pat(l, sd)), hx))); }
        for kl_ in [1usize, 16, 32, 64, 65, 128, 129, 200] {
            for l in [0usize, 1, 64, 1000] { t.row(s, "mac", format!("key{kl_}:len{l}"), "det", each(&|p| res(p.mac(&pat(kl_, sd ^ 1), &pat(l, sd)), hx))); }
        }
        for sl in [0usize, 1, hl, hl + 1, 200] {
            for il in [1usize, hl, 100] { t.row(s, "extract", format!("salt{sl}:ikm{il}"), "det", each(&|p| res(p.kdf_extract(&pat(sl, sd ^ 2), &pat(il, sd ^ 3)).map(|z| z.to_vec()), hx))); }
        }
        for il in [0usize, 1, 100] {
            for ol in [1usize, hl - 1, hl, hl + 1, 2 * hl, 255 * hl] { t.row(s, "expand", format!("info{il}:out{ol}"), "det", each(&|p| res(p.kdf_expand(&pat(hl, sd ^ 4), &pat(il, sd ^ 5), ol).map(|z| z.to_vec()), hx))); }
            t.row(s, "expand", format!("info{il}:out-too-long"), "invalid", each(&|p| res(p.kdf_expand(&pat(hl, sd ^ 4), &pat(il, sd ^ 5), 255 * hl + 1).map(|z| z.to_vec()), hx)));
        }
        for pl in [0usize, 1, 15, 16, 17, 1000] {
            for (an, aad) in [("none", None), ("empty", Some(vec![])), ("some", Some(pat(20, sd ^ 6)))] {
                let key = pat(kl, sd ^ 7); let nonce = pat(nl, sd ^ 8);
                t.row(s, "seal", format!("pt{pl}:aad-{an}"), "det", each(&|p| res(p.aead_seal(&key, &pat(pl, sd), aad.as_deref(), &nonce), hx)));
                // open what the first provider sealed, with every provider; then broken variants
                if let Ok(ct) = provs[0].1.aead_seal(&key, &pat(pl, sd), aad.as_deref(), &nonce) {
                    t.row(s, "open", format!("pt{pl}:aad-{an}"), "valid", each(&|p| res(p.aead_open(&key, &ct, aad.as_deref(), &nonce).map(|z| z.to_vec()), hx)));
                    let mut bad = ct.clone(); let n = bad.len(); bad[n - 1] ^= 1;
                    t.row(s, "open", format!("pt{pl}:aad-{an}:tag-flipped"), "invalid", each(&|p| res(p.aead_open(&key, &bad, aad.as_deref(), &nonce).map(|z| z.to_vec()), hx)));
                    t.row(s, "open", format!("pt{pl}:aad-{an}:other-aad"), "invalid", each(&|p| res(p.aead_open(&key, &ct, Some(b"x"), &nonce).map(|z| z.to_vec()), hx)));
                    t.row(s, "open", format!("pt{pl}:aad-{an}:truncated"), "invalid", each(&|p| res(p.aead_open(&key, &ct[..ct.len().min(5)], aad.as_deref(), &nonce).map(|z| z.to_vec()), hx)));
                }
            }
        }
        for (n, k, no) in [("key-short", kl - 1, nl), ("key-long", kl + 1, nl), ("nonce-short", kl, nl - 1), ("nonce-long", kl, nl + 1), ("nonce-empty", kl, 0)] {
            t.row(s, "seal", format!("bad:{n}"), "invalid", each(&|p| res(p.aead_seal(&pat(k, sd), b"data", None, &pat(no, sd)), hx)));
        }
        for il in [hl, hl + 1, 64, 100] {
            t.row(s, "kem_derive", format!("ikm{il}"), "det", each(&|p| res(p.kem_derive(&pat(il, sd ^ 9)), |(sk, pk)| format!("{}:{}", hex::encode(sk.as_ref()), hex::encode(pk.as_ref())))));
        }
        // --- KEM public keys: a valid one, then malformed ones
        let (ksk, kpk) = provs[0].1.kem_derive(&pat(hl, sd ^ 10)).map_err(|e| format!("{e:?}"))?;
        let pkb = kpk.as_ref().to_vec();
        let mut variants: Vec<(String, &str, Vec<u8>)> = vec![("valid".into(), "valid", pkb.clone()), ("empty".into(), "invalid", vec![]), ("short".into(), "invalid", pkb[..pkb.len() - 1].to_vec()),
            ("long".into(), "invalid", [pkb.clone(), vec![0]].concat())];
        if s != 1 && s != 3 && s != 6 {
            // NIST curves: not on the curve / wrong point format (X25519 and X448 accept every string of the right length)
            let mut off = pkb.clone(); let n = off.len(); off[n - 1] ^= 1; variants.push(("off-curve".into(), "invalid", off));
            let mut pre = pkb.clone(); pre[0] = 0x05; variants.push(("bad-prefix".into(), "invalid", pre));
            variants.push(("all-zero".into(), "invalid", vec![0; pkb.len()]));
        }
        for (n, kind, v) in variants.iter() {
            let k = HpkePublicKey::from(v.clone());
            t.row(s, "pk_validate", n.clone(), kind, each(&|p| res(p.kem_public_key_validate(&k), |_| String::new())));
            if *kind == "invalid" {
                t.row(s, "hpke_seal_to", n.clone(), "invalid", each(&|p| res(p.hpke_seal(&k, b"info", None, b"pt"), |_| String::new())));
            }
        }
        // edge-case signature inputs (degenerate keys and signatures): whatever the verdict, it is the same everywhere
        {
            let sig_len = { let (sk, _) = provs[0].1.signature_key_generate().map_err(|e| format!("{e:?}"))?; provs[0].1.sign(&sk, b"x").map_err(|e| format!("{e:?}"))?.len() };
            let pk_len = provs[0].1.signature_key_generate().map_err(|e| format!("{e:?}"))?.1.as_bytes().len();
            let mut cases: Vec<(String, Vec<u8>, Vec<u8>, Vec<u8>)> = vec![];
            let mut neutral_pk = vec![0u8; pk_len]; neutral_pk[0] = 1;
            let mut neutral_sig = vec![0u8; sig_len]; neutral_sig[0] = 1;
            for m in 0u8..64 {
                cases.push((format!("zero-key-zero-sig:msg{m}"), vec![0; pk_len], vec![0; sig_len], vec![m]));
                cases.push((format!("neutral-key-neutral-sig:msg{m}"), neutral_pk.clone(), neutral_sig.clone(), vec![m]));
            }
            cases.push(("ff-key-ff-sig".into(), vec![0xff; pk_len], vec![0xff; sig_len], b"m".to_vec()));
            cases.push(("neutral-key-zero-sig".into(), neutral_pk.clone(), vec![0; sig_len], b"m".to_vec()));
            for (name, pk, sig, msg) in cases {
                t.row(s, "verify_edge", name, "det", each(&|p| res(p.verify(&SignaturePublicKey::new_slice(&pk), &sig, &msg), |_| String::new())));
            }
        }
        // --- randomised: every ordered pair (producer > checker)
        let mut pairs = |op: &str, input: String, kind: &str, f: &dyn Fn(&DynSuite, &DynSuite) -> (String, String)| {
            let mut r = vec![];
            for (ba, pa) in provs.iter() { for (bb, pb) in provs.iter() {
                r.push((format!("{}>{}", bname(*ba), bname(*bb)), std::panic::catch_unwind(std::panic::AssertUnwindSafe(|| f(pa, pb))).unwrap_or(("panic".into(), String::new()))));
            } }
            t.row(s, op, input, kind, r);
        };
        for ml in [0usize, 1, 100, 1000] {
            let msg = pat(ml, sd ^ 11);
            pairs("sign_verify", format!("msg{ml}"), "valid", &|a, b| { let (sk, pk) = a.signature_key_generate().unwrap(); let sig = a.sign(&sk, &msg).unwrap(); res(b.verify(&pk, &sig, &msg), |_| String::new()) });
            pairs("sign_verify", format!("msg{ml}:sig-flipped"), "invalid", &|a, b| { let (sk, pk) = a.signature_key_generate().unwrap(); let mut sig = a.sign(&sk, &msg).unwrap(); let n = sig.len(); sig[n / 2] ^= 1; res(b.verify(&pk, &sig, &msg), |_| String::new()) });
            pairs("sign_verify", format!("msg{ml}:other-msg"), "invalid", &|a, b| { let (sk, pk) = a.signature_key_generate().unwrap(); let sig = a.sign(&sk, &msg).unwrap(); res(b.verify(&pk, &sig, b"other"), |_| String::new()) });
            pairs("sign_verify", format!("msg{ml}:sig-truncated"), "invalid", &|a, b| { let (sk, pk) = a.signature_key_generate().unwrap(); let sig = a.sign(&sk, &msg).unwrap(); res(b.verify(&pk, &sig[..sig.len() - 1], &msg), |_| String::new()) });
            pairs("sign_verify", format!("msg{ml}:pk-truncated"), "invalid", &|a, b| { let (sk, pk) = a.signature_key_generate().unwrap(); let sig = a.sign(&sk, &msg).unwrap(); let pkb = pk.as_bytes(); res(b.verify(&SignaturePublicKey::new_slice(&pkb[..pkb.len() - 1]), &sig, &msg), |_| String::new()) });
        }
        pairs("sig_derive_public", "generated".into(), "valid", &|a, b| { let (sk, pk) = a.signature_key_generate().unwrap(); match b.signature_key_derive_public(&sk) { Ok(p2) if p2 == pk => ("ok".into(), String::new()), Ok(_) => ("ok".into(), "different".into()), Err(_) => ("err".into(), String::new()) } });
        for (pl, il, an) in [(0usize, 0usize, "none"), (1, 10, "some"), (100, 0, "empty"), (1000, 100, "some")] {
            let pt = pat(pl, sd ^ 12); let info = pat(il, sd ^ 13);
            let aad: Option<Vec<u8>> = match an { "none" => None, "empty" => Some(vec![]), _ => Some(pat(9, sd)) };
            let open = |b: &DynSuite, ct: &HpkeCiphertext, info: &[u8], aad: Option<&[u8]>| res(b.hpke_open(ct, &ksk, &kpk, info, aad).map(|z| z.to_vec()), |v| hex::encode(v));
            pairs("hpke_base", format!("pt{pl}:info{il}:aad-{an}"), "valid", &|a, b| { let ct = match a.hpke_seal(&kpk, &info, aad.as_deref(), &pt) { Ok(c) => c, Err(_) => return ("seal-err".into(), String::new()) }; let r = open(b, &ct, &info, aad.as_deref()); if r.0 == "ok" && r.1 != hex::encode(&pt) { ("ok".into(), "wrong-plaintext".into()) } else { (r.0, String::new()) } });
            pairs("hpke_base", format!("pt{pl}:info{il}:aad-{an}:other-info"), "invalid", &|a, b| { let ct = match a.hpke_seal(&kpk, &info, aad.as_deref(), &pt) { Ok(c) => c, Err(_) => return ("seal-err".into(), String::new()) }; let r = open(b, &ct, b"other-info", aad.as_deref()); (r.0, String::new()) });
            pairs("hpke_base", format!("pt{pl}:info{il}:aad-{an}:ct-flipped"), "invalid", &|a, b| { let mut ct = match a.hpke_seal(&kpk, &info, aad.as_deref(), &pt) { Ok(c) => c, Err(_) => return ("seal-err".into(), String::new()) }; let n = ct.ciphertext.len(); ct.ciphertext[n - 1] ^= 1; let r = open(b, &ct, &info, aad.as_deref()); (r.0, String::new()) });
            pairs("hpke_base", format!("pt{pl}:info{il}:aad-{an}:kem-output-truncated"), "invalid", &|a, b| { let mut ct = match a.hpke_seal(&kpk, &info, aad.as_deref(), &pt) { Ok(c) => c, Err(_) => return ("seal-err".into(), String::new()) }; ct.kem_output.pop(); let r = open(b, &ct, &info, aad.as_deref()); (r.0, String::new()) });
            let pskv = pat(32, sd ^ 14);
            pairs("hpke_psk", format!("pt{pl}:info{il}:aad-{an}"), "valid", &|a, b| {
                let ct = match a.hpke_seal_psk(&kpk, &info, aad.as_deref(), &pt, HpkePsk::new(b"psk-id", &pskv)) { Ok(c) => c, Err(_) => return ("seal-err".into(), String::new()) };
                let r = res(b.hpke_open_psk(&ct, &ksk, &kpk, &info, aad.as_deref(), HpkePsk::new(b"psk-id", &pskv)).map(|z| z.to_vec()), |v| hex::encode(v));
                if r.0 == "ok" && r.1 != hex::encode(&pt) { ("ok".into(), "wrong-plaintext".into()) } else { (r.0, String::new()) } });
            pairs("hpke_psk", format!("pt{pl}:info{il}:aad-{an}:other-psk"), "invalid", &|a, b| {
                let ct = match a.hpke_seal_psk(&kpk, &info, aad.as_deref(), &pt, HpkePsk::new(b"psk-id", &pskv)) { Ok(c) => c, Err(_) => return ("seal-err".into(), String::new()) };
                let other = pat(32, sd ^ 15);
                let r = res(b.hpke_open_psk(&ct, &ksk, &kpk, &info, aad.as_deref(), HpkePsk::new(b"psk-id", &other)).map(|z| z.to_vec()), |v| hex::encode(v)); (r.0, String::new()) });
            pairs("hpke_psk", format!("pt{pl}:info{il}:aad-{an}:base-open"), "invalid", &|a, b| {
                let ct = match a.hpke_seal_psk(&kpk, &info, aad.as_deref(), &pt, HpkePsk::new(b"psk-id", &pskv)) { Ok(c) => c, Err(_) => return ("seal-err".into(), String::new()) };
                let r = open(b, &ct, &info, aad.as_deref()); (r.0, String::new()) });
            pairs("hpke_setup", format!("info{il}:pt{pl}"), "valid", &|a, b| {
                let (enc, mut cs) = a.hpke_setup_s(&kpk, &info).unwrap();
                let mut cr = match b.hpke_setup_r(&enc, &ksk, &kpk, &info) { Ok(c) => c, Err(_) => return ("err".into(), String::new()) };
                let e1 = cs.export(b"exp", 32).map(|z| z.to_vec()); let e2 = cr.export(b"exp", 32).map(|z| z.to_vec());
                let (c1, c2) = match (cs.seal(aad.as_deref(), &pt), cs.seal(aad.as_deref(), &pt)) { (Ok(x), Ok(y)) => (x, y), _ => return ("seal-err".into(), String::new()) };
                let p1 = cr.open(aad.as_deref(), &c1).map(|z| z.to_vec()); let p2 = cr.open(aad.as_deref(), &c2).map(|z| z.to_vec());
                match (e1, e2, p1, p2) { (Ok(x), Ok(y), Ok(u), Ok(v)) if x == y && u == pt && v == pt => ("ok".into(), String::new()), (Ok(_), Ok(_), Ok(_), Ok(_)) => ("ok".into(), "mismatch".into()), _ => ("err".into(), String::new()) } });
        }
    }
    let mut f = std::fs::File::create(out).map_err(|e| e.to_string())?;
    for r in t.rows.iter() { writeln!(f, "{}", r).map_err(|e| e.to_string())?; }
    Ok(json!({"rows": t.rows.len(), "suites": suites_done}))
}
