//! Application-side providers used by the harness: the shipped storage providers (in-memory
//! and SQLite) behind a wrapper that logs every call and can fail the k-th call (C06, C15,
//! C19), and an identity provider wrapper that can reject chosen identities (C04, C10).
use mls_rs::storage_provider::in_memory::{
    InMemoryGroupStateStorage, InMemoryKeyPackageStorage, InMemoryPreSharedKeyStorage,
};
use mls_rs_core::error::IntoAnyError;
use mls_rs_core::extension::ExtensionList;
use mls_rs_core::group::{EpochRecord, GroupState, GroupStateStorage};
use mls_rs_core::identity::{CredentialType, IdentityProvider, MemberValidationContext, SigningIdentity};
use mls_rs_core::key_package::{KeyPackageData, KeyPackageStorage};
use mls_rs_core::psk::{ExternalPskId, PreSharedKey, PreSharedKeyStorage};
use mls_rs_core::time::MlsTime;
use mls_rs_provider_sqlite::connection_strategy::{FileConnectionStrategy, MemoryStrategy};
use mls_rs_provider_sqlite::storage::{SqLiteGroupStateStorage, SqLiteKeyPackageStorage};
use mls_rs_provider_sqlite::SqLiteDataStorageEngine;
use std::collections::BTreeSet;
use std::sync::{Arc, Mutex};
use zeroize::Zeroizing;

#[derive(Debug, Clone)]
pub struct VErr(pub String);
impl std::fmt::Display for VErr {
    fn fmt(&self, f: &mut std::fmt::Formatter<'_>) -> std::fmt::Result {
        write!(f, "{}", self.0)
    }
}
impl std::error::Error for VErr {}
impl IntoAnyError for VErr {
    fn into_dyn_error(self) -> Result<Box<dyn std::error::Error + Send + Sync>, Self> {
        Ok(Box::new(self))
    }
}
fn ve<E: std::fmt::Debug>(e: E) -> VErr {
    VErr(format!("{:?}", e))
}

/// Per-party control block shared by all storage wrappers: one call sequence, one fault plan.
#[derive(Default, Debug)]
pub struct Ctl {
    pub log: Vec<String>,
    pub calls: usize,
    /// fail the call whose 0-based index (counted from `arm`) is in this set
    pub fail: BTreeSet<usize>,
    pub armed_at: usize,
    pub injected: usize,
}

#[derive(Clone, Default)]
pub struct StoreCtl(pub Arc<Mutex<Ctl>>);

impl StoreCtl {
    pub fn new() -> Self {
        Self::default()
    }
    /// Arm a fault plan relative to the next call.
    pub fn arm(&self, fail: &[usize]) {
        let mut c = self.0.lock().unwrap();
        c.armed_at = c.calls;
        c.fail = fail.iter().copied().collect();
        c.injected = 0;
    }
    pub fn disarm(&self) -> usize {
        let mut c = self.0.lock().unwrap();
        c.fail.clear();
        c.injected
    }
    pub fn mark(&self) -> usize {
        self.0.lock().unwrap().log.len()
    }
    pub fn since(&self, mark: usize) -> Vec<String> {
        self.0.lock().unwrap().log[mark..].to_vec()
    }
    fn enter(&self, name: &str) -> Result<(), VErr> {
        let mut c = self.0.lock().unwrap();
        let idx = c.calls - c.armed_at;
        c.calls += 1;
        if c.fail.contains(&idx) {
            c.injected += 1;
            c.log.push(format!("{name}!"));
            return Err(VErr(format!("injected fault at {name} (call {idx})")));
        }
        c.log.push(name.to_string());
        Ok(())
    }
}

#[derive(Clone)]
pub enum GsBackend {
    Mem(InMemoryGroupStateStorage),
    Sql(SqLiteGroupStateStorage),
}

#[derive(Clone)]
pub struct VGroupStore {
    pub inner: GsBackend,
    pub ctl: StoreCtl,
    pub retention: u64,
}

pub enum StoreKind {
    Mem,
    SqlMem,
    SqlFile(std::path::PathBuf),
}

impl VGroupStore {
    pub fn new(kind: &StoreKind, retention: u64, ctl: StoreCtl) -> (VGroupStore, VKpStore) {
        match kind {
            StoreKind::Mem => (
                VGroupStore {
                    inner: GsBackend::Mem(InMemoryGroupStateStorage::new().with_max_epoch_retention(retention as usize).unwrap()),
                    ctl: ctl.clone(),
                    retention,
                },
                VKpStore { inner: KpBackend::Mem(InMemoryKeyPackageStorage::new()), ctl },
            ),
            StoreKind::SqlMem => {
                // NOTE: every connection of MemoryStrategy is its own database; group state and key
                // packages live in different tables, so two connections are fine.
                let e = SqLiteDataStorageEngine::new(MemoryStrategy).unwrap();
                (
                    VGroupStore {
                        inner: GsBackend::Sql(e.group_state_storage().unwrap().with_max_epoch_retention(retention)),
                        ctl: ctl.clone(),
                        retention,
                    },
                    VKpStore { inner: KpBackend::Sql(e.key_package_storage().unwrap()), ctl },
                )
            }
            StoreKind::SqlFile(p) => {
                let e = SqLiteDataStorageEngine::new(FileConnectionStrategy::new(p)).unwrap();
                (
                    VGroupStore {
                        inner: GsBackend::Sql(e.group_state_storage().unwrap().with_max_epoch_retention(retention)),
                        ctl: ctl.clone(),
                        retention,
                    },
                    VKpStore { inner: KpBackend::Sql(e.key_package_storage().unwrap()), ctl },
                )
            }
        }
    }

    /// Direct (unlogged, fault-free) queries for oracles.
    pub fn peek_state(&self, gid: &[u8]) -> Option<Vec<u8>> {
        match &self.inner {
            GsBackend::Mem(s) => s.state(gid).unwrap().map(|z| z.to_vec()),
            GsBackend::Sql(s) => s.state(gid).unwrap().map(|z| z.to_vec()),
        }
    }
    pub fn peek_epoch(&self, gid: &[u8], id: u64) -> Option<Vec<u8>> {
        match &self.inner {
            GsBackend::Mem(s) => s.epoch(gid, id).unwrap().map(|z| z.to_vec()),
            GsBackend::Sql(s) => s.epoch(gid, id).unwrap().map(|z| z.to_vec()),
        }
    }
    pub fn peek_max_epoch(&self, gid: &[u8]) -> Option<u64> {
        match &self.inner {
            GsBackend::Mem(s) => s.max_epoch_id(gid).unwrap(),
            GsBackend::Sql(s) => s.max_epoch_id(gid).unwrap(),
        }
    }
    /// Epoch ids currently retrievable (probing 0..=max).
    pub fn stored_epochs(&self, gid: &[u8]) -> Vec<u64> {
        match self.peek_max_epoch(gid) {
            None => vec![],
            Some(m) => (0..=m).filter(|i| self.peek_epoch(gid, *i).is_some()).collect(),
        }
    }
    /// A deep, independent copy with the same contents (in-memory backend only).
    pub fn deep_copy(&self, gid: &[u8], ctl: StoreCtl) -> VGroupStore {
        let mut copy = InMemoryGroupStateStorage::new().with_max_epoch_retention(self.retention as usize).unwrap();
        if let Some(st) = self.peek_state(gid) {
            let recs: Vec<EpochRecord> = self
                .stored_epochs(gid)
                .into_iter()
                .map(|i| EpochRecord::new(i, Zeroizing::new(self.peek_epoch(gid, i).unwrap())))
                .collect();
            copy.write(GroupState { id: gid.to_vec(), data: Zeroizing::new(st) }, recs, vec![]).unwrap();
        }
        VGroupStore { inner: GsBackend::Mem(copy), ctl, retention: self.retention }
    }
}

impl GroupStateStorage for VGroupStore {
    type Error = VErr;

    fn state(&self, group_id: &[u8]) -> Result<Option<Zeroizing<Vec<u8>>>, VErr> {
        self.ctl.enter("gs.state")?;
        match &self.inner {
            GsBackend::Mem(s) => s.state(group_id).map_err(ve),
            GsBackend::Sql(s) => s.state(group_id).map_err(ve),
        }
    }

    fn epoch(&self, group_id: &[u8], epoch_id: u64) -> Result<Option<Zeroizing<Vec<u8>>>, VErr> {
        self.ctl.enter("gs.epoch")?;
        match &self.inner {
            GsBackend::Mem(s) => s.epoch(group_id, epoch_id).map_err(ve),
            GsBackend::Sql(s) => s.epoch(group_id, epoch_id).map_err(ve),
        }
    }

    fn write(&mut self, state: GroupState, ins: Vec<EpochRecord>, upd: Vec<EpochRecord>) -> Result<(), VErr> {
        self.ctl.enter("gs.write")?;
        match &mut self.inner {
            GsBackend::Mem(s) => s.write(state, ins, upd).map_err(ve),
            GsBackend::Sql(s) => s.write(state, ins, upd).map_err(ve),
        }
    }

    fn max_epoch_id(&self, group_id: &[u8]) -> Result<Option<u64>, VErr> {
        self.ctl.enter("gs.max_epoch_id")?;
        match &self.inner {
            GsBackend::Mem(s) => s.max_epoch_id(group_id).map_err(ve),
            GsBackend::Sql(s) => s.max_epoch_id(group_id).map_err(ve),
        }
    }
}

#[derive(Clone)]
pub enum KpBackend {
    Mem(InMemoryKeyPackageStorage),
    Sql(SqLiteKeyPackageStorage),
}

#[derive(Clone)]
pub struct VKpStore {
    pub inner: KpBackend,
    pub ctl: StoreCtl,
}

impl VKpStore {
    pub fn peek(&self, id: &[u8]) -> Option<KeyPackageData> {
        match &self.inner {
            KpBackend::Mem(s) => s.get(id),
            KpBackend::Sql(s) => KeyPackageStorage::get(s, id).unwrap(),
        }
    }
    pub fn deep_copy(&self, ids: &[Vec<u8>], ctl: StoreCtl) -> VKpStore {
        let copy = InMemoryKeyPackageStorage::new();
        for id in ids {
            if let Some(d) = self.peek(id) {
                copy.insert(id.clone(), d);
            }
        }
        VKpStore { inner: KpBackend::Mem(copy), ctl }
    }
}

impl KeyPackageStorage for VKpStore {
    type Error = VErr;

    fn delete(&mut self, id: &[u8]) -> Result<(), VErr> {
        self.ctl.enter("kp.delete")?;
        match &mut self.inner {
            KpBackend::Mem(s) => KeyPackageStorage::delete(s, id).map_err(ve),
            KpBackend::Sql(s) => KeyPackageStorage::delete(s, id).map_err(ve),
        }
    }

    fn insert(&mut self, id: Vec<u8>, pkg: KeyPackageData) -> Result<(), VErr> {
        self.ctl.enter("kp.insert")?;
        match &mut self.inner {
            KpBackend::Mem(s) => KeyPackageStorage::insert(s, id, pkg).map_err(ve),
            KpBackend::Sql(s) => KeyPackageStorage::insert(s, id, pkg).map_err(ve),
        }
    }

    fn get(&self, id: &[u8]) -> Result<Option<KeyPackageData>, VErr> {
        self.ctl.enter("kp.get")?;
        match &self.inner {
            KpBackend::Mem(s) => KeyPackageStorage::get(s, id).map_err(ve),
            KpBackend::Sql(s) => KeyPackageStorage::get(s, id).map_err(ve),
        }
    }
}

#[derive(Clone)]
pub struct VPskStore {
    pub inner: Arc<Mutex<InMemoryPreSharedKeyStorage>>,
    pub ctl: StoreCtl,
}

impl VPskStore {
    pub fn new(ctl: StoreCtl) -> Self {
        VPskStore { inner: Arc::new(Mutex::new(InMemoryPreSharedKeyStorage::default())), ctl }
    }
    pub fn put(&self, id: &[u8], value: &[u8]) {
        self.inner.lock().unwrap().insert(ExternalPskId::new(id.to_vec()), PreSharedKey::new(value.to_vec()));
    }
    pub fn remove(&self, id: &[u8]) {
        self.inner.lock().unwrap().delete(&ExternalPskId::new(id.to_vec()));
    }
}

impl PreSharedKeyStorage for VPskStore {
    type Error = VErr;

    fn get(&self, id: &ExternalPskId) -> Result<Option<PreSharedKey>, VErr> {
        self.ctl.enter("psk.get")?;
        Ok(self.inner.lock().unwrap().get(id))
    }

    fn contains(&self, id: &ExternalPskId) -> Result<bool, VErr> {
        self.ctl.enter("psk.contains")?;
        Ok(self.inner.lock().unwrap().get(id).is_some())
    }
}

/// BasicIdentityProvider plus a shared reject list (identities the application refuses) and an
/// optional injected provider error.
#[derive(Clone, Default)]
pub struct VIdentity {
    pub reject: Arc<Mutex<BTreeSet<Vec<u8>>>>,
    pub fail_next: Arc<Mutex<usize>>,
}

impl VIdentity {
    fn check(&self, id: &SigningIdentity) -> Result<(), VErr> {
        {
            let mut f = self.fail_next.lock().unwrap();
            if *f > 0 {
                *f -= 1;
                return Err(VErr("injected identity provider error".into()));
            }
        }
        let b = id.credential.as_basic().ok_or_else(|| VErr("unsupported credential".into()))?;
        if self.reject.lock().unwrap().contains(&b.identifier) {
            return Err(VErr("identity rejected by application".into()));
        }
        Ok(())
    }
}

impl IdentityProvider for VIdentity {
    type Error = VErr;

    fn validate_member(&self, id: &SigningIdentity, _t: Option<MlsTime>, _c: MemberValidationContext<'_>) -> Result<(), VErr> {
        self.check(id)
    }
    fn validate_external_sender(&self, id: &SigningIdentity, _t: Option<MlsTime>, _e: Option<&ExtensionList>) -> Result<(), VErr> {
        self.check(id)
    }
    fn identity(&self, id: &SigningIdentity, _e: &ExtensionList) -> Result<Vec<u8>, VErr> {
        id.credential.as_basic().map(|b| b.identifier.to_vec()).ok_or_else(|| VErr("unsupported credential".into()))
    }
    fn valid_successor(&self, a: &SigningIdentity, b: &SigningIdentity, _e: &ExtensionList) -> Result<bool, VErr> {
        Ok(a.credential.as_basic().map(|x| &x.identifier) == b.credential.as_basic().map(|x| &x.identifier))
    }
    fn supported_types(&self) -> Vec<CredentialType> {
        vec![mls_rs_core::identity::BasicCredential::credential_type()]
    }
}
