//! The world a behaviour runs in: real Clients / Groups, their providers, the registry that
//! binds model identifiers (key packages, proposals, commits) to real objects, and the
//! bijection between model key / secret ids and real bytes.
use crate::crypto::{Backend, DynCrypto, Recorder};
use crate::providers::*;
use mls_rs::client_builder::{
    BaseConfig, ClientBuilder, WithCryptoProvider, WithGroupStateStorage, WithIdentityProvider, WithKeyPackageRepo,
    WithMlsRules, WithPskStore,
};
use mls_rs::error::MlsError;
use mls_rs::group::{CommitOutput, Group};
use mls_rs::identity::basic::BasicCredential;
use mls_rs::identity::SigningIdentity;
use mls_rs::mls_rules::{CommitOptions, DefaultMlsRules, EncryptionOptions};
use mls_rs::{CipherSuite, CipherSuiteProvider, Client, CryptoProvider, ExtensionList, MlsMessage, ProtocolVersion};
use std::collections::{BTreeMap, HashMap};

pub type Cfg = WithCryptoProvider<
    DynCrypto,
    WithIdentityProvider<
        VIdentity,
        WithMlsRules<
            DefaultMlsRules,
            WithGroupStateStorage<VGroupStore, WithPskStore<VPskStore, WithKeyPackageRepo<VKpStore, BaseConfig>>>,
        >,
    >,
>;

#[derive(Clone, Debug)]
pub struct Opts {
    pub suite: u16,
    pub path_required: bool,
    pub ratchet_tree_ext: bool,
    pub single_welcome: bool,
    pub encrypt_controls: bool,
    pub retention: u64,
    pub sqlite: bool,
    pub backends: Vec<Backend>, // assigned round-robin to parties
    /// parties whose clients support the optional extension types X (0xF0F2) / Y (0xF0F3); None = everybody
    pub cap_x: Option<Vec<String>>,
    pub cap_y: Option<Vec<String>>,
    /// the group lists an external sender (the observer's signing identity) in its ExternalSenders extension
    pub ext_sender: bool,
}

impl Default for Opts {
    fn default() -> Self {
        Opts {
            suite: 1,
            path_required: false,
            ratchet_tree_ext: true,
            single_welcome: true,
            encrypt_controls: false,
            retention: 3,
            sqlite: false,
            backends: vec![Backend::Openssl],
            cap_x: None,
            cap_y: None,
            ext_sender: false,
        }
    }
}

pub struct Party {
    pub name: String,
    pub client: Client<Cfg>,
    pub group: Option<Group<Cfg>>,
    pub zombies: Vec<Group<Cfg>>,
    pub ctl: StoreCtl,
    pub gs: VGroupStore,
    pub kp: VKpStore,
    pub psk: VPskStore,
    pub ident: VIdentity,
    pub backend: Backend,
    pub sig_pub: Vec<u8>,
    /// last model epoch-secret id this party was projected with (for agreement classes)
    pub ks: Option<i64>,
}

pub struct KpEntry {
    pub owner: String,
    pub msg: MlsMessage,
    pub store_id: Vec<u8>,
}

pub struct CommitEntry {
    pub by: String,
    pub welcomes: Vec<MlsMessage>,
    pub msg: MlsMessage,
    /// insider forgeries of this commit: (kind, message) built by the same member from the same state and the
    /// same proposals, structurally invalid but signed, tagged and hashed consistently (C03)
    pub forged: Vec<(String, MlsMessage)>,
    /// leaf index of the committer and the authenticated data it put into the commit
    pub by_leaf: u32,
    pub ad: Vec<u8>,
    pub tree: Option<Vec<u8>>, // exported tree bytes of the new epoch (out of band)
    pub base_epoch: u64,
}

/// A successor group (re-init or branch) as its creator holds it, with the Welcome messages for the others.
pub struct SuccEntry {
    pub kind: String,
    pub group: mls_rs::Group<Cfg>,
    pub welcomes: Vec<MlsMessage>,
    pub joined: Vec<mls_rs::Group<Cfg>>,
    /// "none", or how the creator deviated from the announcement ("gid", "ext")
    pub tweak: String,
}

#[derive(Default)]
pub struct Bij {
    pub fwd: HashMap<String, Vec<u8>>,
    pub rev: HashMap<Vec<u8>, String>,
}

impl Bij {
    /// Bind model id to bytes: an id seen before must carry the same bytes; a new id must carry
    /// bytes never seen before (freshness).
    pub fn bind(&mut self, id: &str, bytes: &[u8]) -> Result<(), String> {
        match self.fwd.get(id) {
            Some(b) if b.as_slice() == bytes => Ok(()),
            Some(b) => Err(format!("id {id} was bound to {} but now shows {}", hex8(b), hex8(bytes))),
            None => match self.rev.get(bytes) {
                Some(other) => Err(format!("id {id} should be fresh but its bytes {} are those of {other}", hex8(bytes))),
                None => {
                    self.fwd.insert(id.to_string(), bytes.to_vec());
                    self.rev.insert(bytes.to_vec(), id.to_string());
                    Ok(())
                }
            },
        }
    }
    pub fn get(&self, id: &str) -> Option<&Vec<u8>> {
        self.fwd.get(id)
    }
    pub fn name_of(&self, bytes: &[u8]) -> String {
        self.rev.get(bytes).cloned().unwrap_or_else(|| format!("?{}", hex8(bytes)))
    }
}

pub fn hex8(b: &[u8]) -> String {
    hex::encode(&b[..b.len().min(8)])
}

pub struct World {
    pub opts: Opts,
    pub parties: BTreeMap<String, Party>,
    pub rec: Recorder,
    pub kps: Vec<KpEntry>,
    pub props: Vec<MlsMessage>,
    pub prop_refs: Vec<Vec<u8>>,
    /// per proposal: kind, sender ("member:<leaf>", "external:<i>", "newmember") and authenticated data
    pub prop_meta: Vec<(String, String, Vec<u8>)>,
    pub commits: Vec<CommitEntry>,
    pub keys: Bij,
    pub secrets: Bij,
    pub suite: CipherSuite,
    pub gid: Vec<u8>,
    pub tmpdir: Option<std::path::PathBuf>,
    pub stats: BTreeMap<String, u64>,
    pub detached: HashMap<(String, usize), mls_rs::group::CommitSecrets>,
    pub apps: Vec<(String, Vec<MlsMessage>)>,
    pub app_lo: HashMap<usize, usize>,
    pub app_leaf: HashMap<usize, u32>,
    pub written: HashMap<String, mls_rs::group::verif::VerifState>,
    pub joined_with: HashMap<String, Vec<u8>>,
    /// storage ids of last-resort key packages (never deleted by a join)
    pub last_resort: std::collections::HashSet<Vec<u8>>,
    pub bad_clients: HashMap<String, Client<Cfg>>,
    pub succ: Vec<SuccEntry>,
    /// signing key and identity of the external sender (observer), when the behaviour uses one
    pub ext_signer: Option<(mls_rs_core::crypto::SignatureSecretKey, SigningIdentity)>,
}

pub fn make_client(
    name: &str,
    backend: Backend,
    opts: &Opts,
    rec: &Recorder,
    sqlite_path: Option<std::path::PathBuf>,
    existing_sig: Option<(Vec<u8>, Vec<u8>)>,
) -> (Client<Cfg>, StoreCtl, VGroupStore, VKpStore, VPskStore, VIdentity, Vec<u8>, Vec<u8>) {
    let suite = CipherSuite::from(opts.suite);
    let crypto = DynCrypto::new(backend, name, rec.clone());
    let cs = crypto.cipher_suite_provider(suite).expect("suite supported by backend");
    let (sk, pk) = match existing_sig {
        Some((s, p)) => (s.into(), p.into()),
        None => cs.signature_key_generate().unwrap(),
    };
    let ctl = StoreCtl::new();
    let kind = match (&sqlite_path, opts.sqlite) {
        (Some(p), true) => StoreKind::SqlFile(p.clone()),
        (None, true) => StoreKind::SqlMem,
        _ => StoreKind::Mem,
    };
    let (gs, kp) = VGroupStore::new(&kind, opts.retention, ctl.clone());
    let psk = VPskStore::new(ctl.clone());
    let ident = VIdentity::default();
    let commit_options = CommitOptions::new()
        .with_path_required(opts.path_required)
        .with_ratchet_tree_extension(opts.ratchet_tree_ext)
        .with_single_welcome_message(opts.single_welcome)
        .with_allow_external_commit(true)
        .with_always_out_of_band_ratchet_tree(true);
    let mut rules = DefaultMlsRules::default().with_commit_options(commit_options);
    if opts.encrypt_controls {
        rules = rules.with_encryption_options(EncryptionOptions::new(true, mls_rs::client_builder::PaddingMode::None));
    }
    let cred = BasicCredential::new(name.as_bytes().to_vec()).into_credential();
    let id = SigningIdentity::new(cred, pk.clone());
    let client = ClientBuilder::new()
        .key_package_repo(kp.clone())
        .psk_store(psk.clone())
        .group_state_storage(gs.clone())
        .mls_rules(rules)
        .identity_provider(ident.clone())
        .crypto_provider(crypto)
        .extension_type(mls_rs::extension::ExtensionType::new(0xF0F0))
        .extension_types(
            [(0xF0F2u16, &opts.cap_x), (0xF0F3u16, &opts.cap_y)]
                .into_iter()
                // throw-away identities (not parties of the behaviour) support everything
                .filter(|(_, l)| l.as_ref().map(|l| l.iter().any(|n| n == name) || !name.starts_with('p')).unwrap_or(true))
                .map(|(t, _)| mls_rs::extension::ExtensionType::new(t)),
        )
        .custom_proposal_type(mls_rs::group::proposal::ProposalType::new(0xF0F1))
        .signing_identity(id, sk.clone(), suite)
        .build();
    (client, ctl, gs, kp, psk, ident, sk.as_bytes().to_vec(), pk.as_bytes().to_vec())
}

impl World {
    pub fn new(opts: Opts, names: &[String], creator: &str) -> Result<World, String> {
        let rec = Recorder::new();
        let suite = CipherSuite::from(opts.suite);
        let tmpdir = if opts.sqlite {
            let d = std::path::PathBuf::from(format!(
                "/verif/work/sqlite/{}-{}",
                std::process::id(),
                std::time::SystemTime::now().duration_since(std::time::UNIX_EPOCH).unwrap().as_nanos()
            ));
            std::fs::create_dir_all(&d).map_err(|e| e.to_string())?;
            Some(d)
        } else {
            None
        };
        let mut parties = BTreeMap::new();
        for (i, n) in names.iter().enumerate() {
            let backend = opts.backends[i % opts.backends.len()];
            let path = tmpdir.as_ref().map(|d| d.join(format!("{n}.db")));
            let (client, ctl, gs, kp, psk, ident, _sk, pk) = make_client(n, backend, &opts, &rec, path, None);
            parties.insert(
                n.clone(),
                Party { name: n.clone(), client, group: None, zombies: vec![], ctl, gs, kp, psk, ident, backend, sig_pub: pk, ks: None },
            );
        }
        let mut w = World {
            opts,
            parties,
            rec,
            kps: vec![],
            props: vec![],
            prop_refs: vec![],
            prop_meta: vec![],
            commits: vec![],
            keys: Bij::default(),
            secrets: Bij::default(),
            suite,
            gid: b"verif-group".to_vec(),
            tmpdir,
            stats: BTreeMap::new(),
            detached: HashMap::new(),
            apps: vec![],
            app_lo: HashMap::new(),
            app_leaf: HashMap::new(),
            written: HashMap::new(),
            joined_with: HashMap::new(),
            last_resort: Default::default(),
            bad_clients: HashMap::new(),
            succ: vec![],
            ext_signer: None,
        };
        for n in ["bad-expired", "rejected"] {
            let (client, ..) = make_client(n, w.opts.backends[0], &w.opts, &w.rec, None, None);
            w.bad_clients.insert(n.to_string(), client);
        }
        for p in w.parties.values() {
            p.ident.reject.lock().unwrap().insert(b"rejected".to_vec());
        }
        let gid = w.gid.clone();
        let mut ctx_ext = ExtensionList::default();
        crate::replay::EXT_SENDERS.with(|e| *e.borrow_mut() = None);
        if w.opts.ext_sender {
            let cs = w.cs(creator);
            let (sk, pk) = cs.signature_key_generate().map_err(|e| format!("{e:?}"))?;
            let id = SigningIdentity::new(BasicCredential::new(b"external-sender".to_vec()).into_credential(), pk);
            // a key roll-over of the service: the list keeps an older entry with the same credential and another key in
            // front of the one the observer signs with (the sender index must be that of the observer's own key)
            let (_old_sk, old_pk) = cs.signature_key_generate().map_err(|e| format!("{e:?}"))?;
            let old = SigningIdentity::new(BasicCredential::new(b"external-sender".to_vec()).into_credential(), old_pk);
            let ext = mls_rs::extension::built_in::ExternalSendersExt::new(vec![old, id.clone()]);
            ctx_ext.set_from(ext.clone()).map_err(|e| format!("{e:?}"))?;
            crate::replay::EXT_SENDERS.with(|e| *e.borrow_mut() = Some(ext));
            w.ext_signer = Some((sk, id));
        }
        let p = w.parties.get_mut(creator).ok_or("no creator")?;
        let g = p
            .client
            .create_group_with_id(gid, ctx_ext, ExtensionList::default(), None)
            .map_err(|e| format!("create_group: {e:?}"))?;
        p.group = Some(g);
        Ok(w)
    }

    pub fn bump(&mut self, k: &str) {
        *self.stats.entry(k.to_string()).or_insert(0) += 1;
    }

    pub fn cs(&self, party: &str) -> crate::crypto::DynSuite {
        let p = &self.parties[party];
        DynCrypto::new(p.backend, &format!("{party}#probe"), Recorder::new()).cipher_suite_provider(self.suite).unwrap()
    }

    pub fn protocol_version(&self) -> ProtocolVersion {
        ProtocolVersion::MLS_10
    }
}

impl Drop for World {
    fn drop(&mut self) {
        if let Some(d) = &self.tmpdir {
            let _ = std::fs::remove_dir_all(d);
        }
    }
}

/// Coarse error classes shared with the specification (DESIGN 2.3).
pub fn classify(e: &MlsError) -> String {
    use MlsError::*;
    let s = match e {
        InvalidEpoch => "err:epoch",
        KeyMissing(_) => "err:replay",
        InvalidFutureGeneration(_) => "err:future",
        EpochNotFound => "err:epoch-not-found",
        MemberNotFound => "err:sender-gone",
        CommitRequired => "err:commit-required",
        CantProcessMessageFromSelf => "err:own-commit",
        ProposalNotFound => "err:proposal-not-found",
        ExistingPendingCommit => "err:pending-exists",
        PendingCommitNotFound => "err:no-pending",
        RemovingNonExistingMember => "err:rule:remove-nonmember",
        CommitterSelfRemoval => "err:rule:remove-committer",
        InvalidCommitSelfUpdate => "err:rule:update-by-committer",
        UpdatingNonExistingMember => "err:rule:update-nonmember",
        DuplicateLeafData(_) => "err:rule:add-duplicate",
        MissingRequiredPsk | OldGroupStateNotFound => "err:rule:psk-unknown",
        MoreThanOneGroupContextExtensionsProposal => "err:rule:gce-more-than-one",
        OtherProposalWithReInit => "err:rule:reinit-not-alone",
        InvalidProposalTypeForSender | InvalidTypeOrUsageInPreSharedKeyProposal | InvalidPskNonceLength | DuplicatePskIds => "err:rule:other",
        InvalidLifetime { .. } => "err:rule:kp-lifetime",
        CryptoProviderError(_) => "err:decrypt",
        GroupUsedAfterReInit => "err:frozen",
        NotASubgroup => "err:not-subgroup",
        PendingReInitNotFound => "err:no-reinit",
        InvalidConfirmationTag => "err:conf-tag",
        InvalidSignature => "err:auth",
        InvalidMembershipTag => "err:auth",
        UpdateErrorNoSecretKey => "err:decap-no-key",
        LcaNotFoundInDirectPath => "err:decap-lca-filtered",
        PubKeyMismatch => "err:decap-wrong-key",
        GroupStorageError(_) | KeyPackageRepoError(_) | PskStoreError(_) => "err:storage",
        IdentityProviderError(_) => "err:rule:identity",
        RequiredExtensionNotFound(_) | UnsupportedGroupExtension(_) | RequiredProposalNotFound(_) | RequiredCredentialNotFound(_) => "err:rule:caps",
        _ => "",
    };
    if s.is_empty() {
        let d = format!("{e:?}");
        let name: String = d.chars().take_while(|c| c.is_alphanumeric() || *c == '_').collect();
        format!("err:other:{name}")
    } else {
        s.to_string()
    }
}
