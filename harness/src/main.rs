mod treemath;

use serde_json::json;

fn arg(args: &[String], name: &str) -> Option<String> {
    args.iter().position(|a| a == name).and_then(|i| args.get(i + 1).cloned())
}
fn arg_u64(args: &[String], name: &str, d: u64) -> u64 { arg(args, name).and_then(|v| v.parse().ok()).unwrap_or(d) }

fn main() {
    let args: Vec<String> = std::env::args().collect();
    let cmd = args.get(1).map(|s| s.as_str()).unwrap_or("");
    match cmd {
        "treemath" => {
            let out = arg(&args, "--out").expect("--out");
            let st = treemath::dump(&out, arg_u64(&args, "--max-log", 12) as u32, arg_u64(&args, "--pair-log", 7) as u32,
                arg_u64(&args, "--samples", 2000) as u32, arg_u64(&args, "--seed", 1)).expect("io");
            println!("{}", json!({"rows": st.rows, "node_rows": st.node_rows, "pair_rows": st.pair_rows, "bfs_rows": st.bfs_rows, "bound_rows": st.bound_rows, "samples": st.samples}));
        }
        _ => { eprintln!("unknown command {cmd}"); std::process::exit(2); }
    }
}
