#![allow(dead_code, unused_imports, unused_variables)]
mod codec;
mod crash;
mod crypto;
mod cryptodiff;
mod driver;
mod kstrace;
mod observer;
mod oracles;
mod providers;
mod replay;
mod treemath;
mod world;
mod x509;

use rand::{rngs::StdRng, Rng, SeedableRng};

#[global_allocator]
static ALLOC: codec::Counting = codec::Counting;
use serde_json::{json, Value};
use std::collections::{BTreeMap, BTreeSet};
use std::io::BufRead;

fn arg(args: &[String], name: &str) -> Option<String> {
    args.iter().position(|a| a == name).and_then(|i| args.get(i + 1).cloned())
}
fn arg_u64(args: &[String], name: &str, d: u64) -> u64 {
    arg(args, name).and_then(|v| v.parse().ok()).unwrap_or(d)
}
fn flag(args: &[String], name: &str) -> bool {
    args.iter().any(|a| a == name)
}

pub fn pick_opts(seed: u64, idx: u64, mixed: bool) -> world::Opts {
    use crypto::Backend;
    let mut rng = StdRng::seed_from_u64(seed.wrapping_mul(0x9E37_79B9_7F4A_7C15).wrapping_add(idx));
    let all = Backend::all();
    let mut backends: Vec<Backend> = vec![];
    if mixed {
        let k = rng.random_range(1..=3usize);
        let start = rng.random_range(0..3usize);
        for i in 0..k {
            backends.push(all[(start + i) % 3]);
        }
    } else {
        backends.push(Backend::Openssl);
    }
    let suites: Vec<u16> = (1u16..=7).filter(|s| backends.iter().all(|b| b.supports((*s).into()))).collect();
    let suite = suites[rng.random_range(0..suites.len())];
    world::Opts {
        suite,
        path_required: false,
        ratchet_tree_ext: rng.random_bool(0.5),
        single_welcome: rng.random_bool(0.5),
        encrypt_controls: rng.random_bool(0.5),
        retention: 3,
        cap_x: None,
        cap_y: None,
        ext_sender: false,
        sqlite: false,
        backends,
    }
}

fn opts_json(o: &world::Opts) -> Value {
    json!({"suite": o.suite, "ratchet_tree_ext": o.ratchet_tree_ext, "single_welcome": o.single_welcome,
           "encrypt_controls": o.encrypt_controls, "retention": o.retention, "sqlite": o.sqlite,
           "backends": o.backends.iter().map(|b| b.name()).collect::<Vec<_>>()})
}

fn opts_from_json(v: &Value) -> world::Opts {
    use crypto::Backend;
    world::Opts {
        suite: v["suite"].as_u64().unwrap_or(1) as u16,
        path_required: false,
        ratchet_tree_ext: v["ratchet_tree_ext"].as_bool().unwrap_or(true),
        single_welcome: v["single_welcome"].as_bool().unwrap_or(true),
        encrypt_controls: v["encrypt_controls"].as_bool().unwrap_or(false),
        retention: v["retention"].as_u64().unwrap_or(3),
        cap_x: None,
        cap_y: None,
        ext_sender: false,
        sqlite: v["sqlite"].as_bool().unwrap_or(false),
        backends: v["backends"].as_array().map(|a| a.iter().map(|b| match b.as_str().unwrap() { "awslc" => Backend::AwsLc, "rustcrypto" => Backend::RustCrypto, _ => Backend::Openssl }).collect()).unwrap_or(vec![Backend::Openssl]),
    }
}

fn cmd_replay(args: &[String]) -> i32 {
    let input = arg(args, "--in").expect("--in");
    let seed = arg_u64(args, "--seed", 1);
    let threads = arg_u64(args, "--threads", 8) as usize;
    let limit = arg_u64(args, "--limit", u64::MAX) as usize;
    let out_dir = arg(args, "--out-dir").unwrap_or("/verif/work/replay".into());
    let mixed = !flag(args, "--single-backend");
    // --faults-write: storage faults in write_to_storage only (C07: a key package whose deletion failed once)
    let faults = flag(args, "--faults") || flag(args, "--faults-write");
    replay::FAULTS_WRITE_ONLY.store(flag(args, "--faults-write"), std::sync::atomic::Ordering::Relaxed);
    let sqlite = flag(args, "--sqlite");
    let tamper = (arg_u64(args, "--tamper", 0) as usize, flag(args, "--tamper-exhaustive"), seed);
    std::fs::create_dir_all(&out_dir).ok();
    let f = std::io::BufReader::new(std::fs::File::open(&input).expect("open input"));
    let behaviours: Vec<Value> = f.lines().filter_map(|l| l.ok()).filter(|l| l.starts_with('{')).take(limit).map(|l| serde_json::from_str(&l).expect("json")).collect();
    let n = behaviours.len();
    let chunks: Vec<Vec<(usize, Value)>> = {
        let mut c: Vec<Vec<(usize, Value)>> = (0..threads).map(|_| vec![]).collect();
        for (i, b) in behaviours.into_iter().enumerate() {
            c[i % threads].push((i, b));
        }
        c
    };
    std::panic::set_hook(Box::new(|_| {}));
    let handles: Vec<_> = chunks
        .into_iter()
        .map(|chunk| {
            let out_dir = out_dir.clone();
            std::thread::spawn(move || {
                let mut res = vec![];
                for (i, b) in chunk {
                    // a replay file carries its own options
                    let mut opts = match b.get("opts") { Some(o) => opts_from_json(o), None => pick_opts(seed, i as u64, mixed) };
                    if sqlite { opts.sqlite = true; }
                    if let Some(r) = b.get("cfg").and_then(|c| c.get("retention")).and_then(|r| r.as_u64()) { opts.retention = r; }
                    let oj = opts_json(&opts);
                    let o = replay::run_behaviour(&b, opts, false, faults || b.get("faults").and_then(|f| f.as_bool()).unwrap_or(false), tamper);
                    let mut files = vec![];
                    if !o.viols.is_empty() {
                        let mut bb = b.clone();
                        bb["opts"] = oj.clone();
                        let last = o.viols[0].step;
                        if let Some(steps) = bb.get_mut("steps").and_then(|s| s.as_array_mut()) { steps.truncate(last + 1); }
                        bb["violation"] = json!({"step": last, "kind": o.viols[0].kind, "what": o.viols[0].what, "props": o.viols[0].props});
                        let path = format!("{}/behaviour-{}-{}.json", out_dir, seed, i);
                        std::fs::write(&path, serde_json::to_string(&bb).unwrap()).ok();
                        files.push(path);
                    }
                    res.push((i, o, files, oj));
                }
                res
            })
        })
        .collect();
    let mut stats: BTreeMap<String, u64> = BTreeMap::new();
    let mut viols = vec![];
    let mut steps = 0usize;
    let mut states: BTreeSet<String> = BTreeSet::new();
    let mut suites: BTreeMap<String, u64> = BTreeMap::new();
    for h in handles {
        for (i, o, files, oj) in h.join().expect("thread") {
            steps += o.steps_run;
            for (k, v) in o.stats { *stats.entry(k).or_insert(0) += v; }
            for s in o.states { states.insert(s); }
            *suites.entry(format!("suite{}:{}", oj["suite"], oj["backends"])).or_insert(0) += 1;
            for v in o.viols {
                viols.push(json!({"behaviour": i, "step": v.step, "props": v.props, "kind": v.kind, "what": v.what, "replay": files.get(0)}));
            }
        }
    }
    println!("{}", json!({"behaviours": n, "steps": steps, "distinct_states": states.len(), "stats": stats, "configs": suites, "violations": viols}));
    0
}

fn main() {
    let args: Vec<String> = std::env::args().collect();
    let cmd = args.get(1).map(|s| s.as_str()).unwrap_or("");
    let rc = match cmd {
        "treemath" => {
            std::panic::set_hook(Box::new(|_| {}));
            let out = arg(&args, "--out").expect("--out");
            let st = treemath::dump(&out, arg_u64(&args, "--max-log", 12) as u32, arg_u64(&args, "--pair-log", 7) as u32,
                arg_u64(&args, "--samples", 2000) as u32, arg_u64(&args, "--seed", 1)).expect("io");
            println!("{}", json!({"rows": st.rows, "node_rows": st.node_rows, "pair_rows": st.pair_rows, "bfs_rows": st.bfs_rows, "bound_rows": st.bound_rows, "samples": st.samples, "panics": st.panics}));
            0
        }
        "replay" => cmd_replay(&args),
        "crash-child" => crash::child(&arg(&args, "--db").expect("--db"), arg_u64(&args, "--retention", 3)),
        "crash" => {
            let exe = std::env::current_exe().expect("exe").to_string_lossy().to_string();
            println!("{}", crash::run(arg_u64(&args, "--rounds", 30) as usize, arg_u64(&args, "--seed", 1), &exe));
            0
        }
        "cryptodiff" => {
            let out = arg(&args, "--out").expect("--out");
            match cryptodiff::dump(&out, arg_u64(&args, "--seed", 1)) {
                Ok(v) => { println!("{}", v); 0 }
                Err(e) => { eprintln!("cryptodiff: {e}"); 2 }
            }
        }
        "x509" => {
            let input = arg(&args, "--in").expect("--in");
            let out = arg(&args, "--out").expect("--out");
            match x509::run(&input, &out, arg_u64(&args, "--threads", 8) as usize) {
                Ok(v) => { println!("{}", v); 0 }
                Err(e) => { eprintln!("x509: {e}"); 2 }
            }
        }
        "drive" => {
            // random driver: --out file.ndjson --seed S --num N --len L --parties P --features a,b
            let out = arg(&args, "--out").expect("--out");
            let seed = arg_u64(&args, "--seed", 1);
            let num = arg_u64(&args, "--num", 20);
            let len = arg_u64(&args, "--len", 60) as usize;
            let np = arg_u64(&args, "--parties", 5) as usize;
            let feats: Vec<String> = arg(&args, "--features").unwrap_or_else(|| "apps,storage,custom,gce,extcommit".into()).split(',').map(|s| s.to_string()).collect();
            std::panic::set_hook(Box::new(|_| {}));
            let mut f = std::fs::File::create(&out).expect("out");
            let mut total = 0usize;
            for i in 0..num {
                let mut opts = pick_opts(seed, i, !args.iter().any(|a| a == "--single-backend"));
                let mut rng = <rand::rngs::StdRng as rand::SeedableRng>::seed_from_u64(seed * 7919 + i);
                opts.path_required = rand::Rng::random_range(&mut rng, 0..2) == 0;
                opts.encrypt_controls = rand::Rng::random_range(&mut rng, 0..3) == 0;
                let names: Vec<String> = (1..=np).map(|k| format!("p{k}")).collect();
                let fr: Vec<&str> = feats.iter().map(|s| s.as_str()).collect();
                let oj = opts_json(&opts);
                let d = driver::Driver::new(opts, names, seed * 104729 + i, &fr);
                let mut b = d.run(len);
                b["opts"] = oj;
                total += b["steps"].as_array().map(|a| a.len()).unwrap_or(0);
                use std::io::Write;
                writeln!(f, "{}", b).ok();
            }
            println!("{}", json!({"traces": num, "steps": total}));
            0
        }
        "codec" => {
            let out = arg(&args, "--out").expect("--out");
            std::panic::set_hook(Box::new(|_| {}));
            match codec::dump(&out, arg_u64(&args, "--seed", 1), arg_u64(&args, "--mutants", 200) as usize, arg_u64(&args, "--alphabet-len", 3) as usize) {
                Ok(st) => {
                    println!("{}", json!({"prim_rows": st.prim, "enc_rows": st.enc, "inputs_probed": st.msgs, "authentic_messages": st.authentic,
                        "accepted_mutants": st.accepted_mutants, "max_alloc_ratio": st.max_alloc_ratio, "violations": st.viols, "samples": st.samples, "kinds": st.kinds}));
                    0
                }
                Err(e) => { eprintln!("codec: {e}"); 2 }
            }
        }
        "kstrace" => {
            let out = arg(&args, "--out").expect("--out");
            match kstrace::dump(&out, arg_u64(&args, "--seed", 1), arg_u64(&args, "--scenarios", 4) as usize) {
                Ok(v) => { println!("{}", v); 0 }
                Err(e) => { eprintln!("kstrace: {e}"); 2 }
            }
        }
        _ => { eprintln!("unknown command {cmd}"); 2 }
    };
    std::process::exit(rc);
}
