//! Direction 1 (specification -> implementation): replay behaviours printed by TLC into the
//! real library and compare outcome, projection and concrete oracles after every step.
//! The harness holds no second model: every expected value comes from the behaviour.
use crate::crypto::Ev;
use crate::oracles::*;
use crate::world::*;
use crate::providers::KpBackend;
use mls_rs::group::{CommitEffect, Node, ReceivedMessage};
use mls_rs::MlsMessage;
use serde_json::{json, Value};
use std::collections::BTreeMap;

#[derive(Debug, Clone)]
pub struct Viol {
    pub props: Vec<&'static str>,
    pub kind: String,
    pub what: String,
    pub step: usize,
}

pub struct Outcome {
    pub steps_run: usize,
    pub viols: Vec<Viol>,
    pub stats: BTreeMap<String, u64>,
    pub states: Vec<String>, // digests of distinct projected states (for coverage counting)
}

fn s<'a>(v: &'a Value, k: &str) -> &'a str {
    v.get(k).and_then(|x| x.as_str()).unwrap_or("")
}
fn u(v: &Value, k: &str) -> u64 {
    v.get(k).and_then(|x| x.as_u64()).unwrap_or(0)
}

pub struct Replayer {
    pub w: World,
    pub viols: Vec<Viol>,
    pub step: usize,
    pub states: Vec<String>,
    pub deep: bool,
}

macro_rules! viol {
    ($self:expr, $props:expr, $kind:expr, $($arg:tt)*) => {
        $self.viols.push(Viol { props: $props.to_vec(), kind: $kind.to_string(), what: format!($($arg)*), step: $self.step })
    };
}

impl Replayer {
    pub fn new(w: World, deep: bool) -> Self {
        Replayer { w, viols: vec![], step: 0, states: vec![], deep }
    }

    /// Compare the real group of `party` with the expected projection `post`.
    pub fn compare_projection(&mut self, party: &str, post: &Value) {
        let st = s(post, "st");
        let has = self.w.parties[party].group.is_some();
        if st == "none" {
            if has {
                viol!(self, ["C01"], "proj-st", "{party}: model has no group, implementation has one");
            }
            return;
        }
        if !has {
            viol!(self, ["C01", "C07"], "proj-st", "{party}: model has a group, implementation has none");
            return;
        }
        let g = self.w.parties[party].group.as_ref().unwrap().clone();
        // epoch
        if g.current_epoch() != u(post, "epoch") {
            viol!(self, ["C01", "C11"], "proj-epoch", "{party}: epoch {} expected {}", g.current_epoch(), u(post, "epoch"));
        }
        if g.current_member_index() as u64 != u(post, "leaf") {
            viol!(self, ["C01", "C07"], "proj-leaf", "{party}: own leaf {} expected {}", g.current_member_index(), u(post, "leaf"));
        }
        if g.has_pending_commit() != (u(post, "pend") != 0) {
            viol!(self, ["C11"], "proj-pending", "{party}: has_pending_commit {} expected pend={}", g.has_pending_commit(), u(post, "pend"));
        }
        // epoch secret identity
        let ks = format!("ks{}", u(post, "ks"));
        match g.epoch_authenticator() {
            Ok(a) => {
                if let Err(e) = self.w.secrets.bind(&ks, a.as_bytes()) {
                    viol!(self, ["C01"], "proj-ks", "{party}: epoch authenticator: {e}");
                }
            }
            Err(e) => viol!(self, ["C01"], "proj-ks", "{party}: epoch_authenticator failed {e:?}"),
        }
        self.w.parties.get_mut(party).unwrap().ks = Some(u(post, "ks") as i64);
        // tree
        let tree = g.export_tree();
        let nodes = tree.nodes();
        let exp = post.get("tree").and_then(|t| t.as_array()).cloned().unwrap_or_default();
        self.compare_tree(party, nodes, &exp, "member tree");
        // cached proposals
        let mut have: Vec<Vec<u8>> = g.get_cached_proposals().iter().map(|c| c.proposal_ref().as_slice().to_vec()).collect();
        have.sort();
        let mut want: Vec<Vec<u8>> = post
            .get("cache")
            .and_then(|c| c.as_array())
            .map(|a| a.iter().filter_map(|j| self.w.prop_refs.get(j.as_u64().unwrap() as usize - 1).cloned()).collect())
            .unwrap_or_default();
        want.sort();
        if have != want {
            viol!(self, ["C10", "C06"], "proj-cache", "{party}: cached proposals {} expected {}", have.len(), want.len());
        }
        // private keys
        let (leaf, sks) = g.verif_private_keys();
        let n = leaf_count_of(nodes.len());
        let dp = direct_path(2 * leaf as usize, n);
        let mut have_nodes = vec![];
        for (i, k) in sks.iter().enumerate() {
            if let Some(k) = k {
                let x = if i == 0 { 2 * leaf as usize } else { *dp.get(i - 1).unwrap_or(&usize::MAX) };
                have_nodes.push((x, k.clone()));
            }
        }
        let exp_priv: Vec<(usize, String)> = post
            .get("priv")
            .and_then(|p| p.as_array())
            .map(|a| a.iter().map(|e| (e[0].as_u64().unwrap() as usize, e[1].as_str().unwrap().to_string())).collect())
            .unwrap_or_default();
        let hn: Vec<usize> = {
            let mut v: Vec<usize> = have_nodes.iter().map(|x| x.0).collect();
            v.sort();
            v
        };
        let en: Vec<usize> = {
            let mut v: Vec<usize> = exp_priv.iter().map(|x| x.0).collect();
            v.sort();
            v
        };
        if hn != en {
            viol!(self, ["C09"], "proj-priv-set", "{party}: holds private keys for nodes {hn:?}, expected {en:?}");
        }
        let cs = self.w.cs(party);
        for (x, sk) in &have_nodes {
            match nodes.get(*x).and_then(|n| n.as_ref()) {
                None => viol!(self, ["C09"], "priv-blank", "{party}: stores a private key for blank node {x}"),
                Some(nd) => {
                    if !key_pair_matches(&cs, sk, nd.public_key().as_ref()) {
                        viol!(self, ["C09"], "priv-mismatch", "{party}: private key stored for node {x} does not open what is sealed to that node's public key");
                    }
                }
            }
        }
        // digest for distinct-state counting
        let dig = format!(
            "{}|{}|{}|{:?}|{:?}",
            u(post, "epoch"),
            u(post, "leaf"),
            exp.iter().map(|n| s(n, "t")).collect::<String>(),
            en,
            post.get("cache")
        );
        self.states.push(dig);
    }

    pub fn compare_tree(&mut self, party: &str, nodes: &[Option<Node>], exp: &[Value], what: &str) {
        if nodes.len() != exp.len() {
            viol!(self, ["C01", "C08"], "tree-len", "{party}: {what} has {} nodes, expected {}", nodes.len(), exp.len());
            return;
        }
        for (x, (n, e)) in nodes.iter().zip(exp.iter()).enumerate() {
            let t = s(e, "t");
            match (n, t) {
                (None, "B") => {}
                (Some(Node::Leaf(l)), "L") => {
                    let who = l.signing_identity.credential.as_basic().map(|b| String::from_utf8_lossy(&b.identifier).to_string()).unwrap_or_default();
                    if who != s(e, "who") {
                        viol!(self, ["C01", "C08"], "tree-who", "{party}: {what} leaf at node {x} belongs to {who}, expected {}", s(e, "who"));
                    }
                    let src = match l.leaf_node_source {
                        mls_rs::group::LeafNodeSource::KeyPackage(_) => "kp",
                        mls_rs::group::LeafNodeSource::Update => "upd",
                        mls_rs::group::LeafNodeSource::Commit(_) => "commit",
                    };
                    if src != s(e, "src") {
                        viol!(self, ["C01", "C08"], "tree-src", "{party}: {what} leaf at node {x} has source {src}, expected {}", s(e, "src"));
                    }
                    if let Err(m) = self.w.keys.bind(s(e, "k"), l.public_key.as_ref()) {
                        viol!(self, ["C01", "C09"], "tree-key", "{party}: {what} node {x}: {m}");
                    }
                }
                (Some(Node::Parent(p)), "P") => {
                    let um: Vec<u64> = p.unmerged_leaves.iter().map(|l| **l as u64).collect();
                    let eum: Vec<u64> = e.get("um").and_then(|a| a.as_array()).map(|a| a.iter().map(|v| v.as_u64().unwrap()).collect()).unwrap_or_default();
                    if um != eum {
                        viol!(self, ["C01", "C08"], "tree-um", "{party}: {what} node {x} unmerged {um:?}, expected {eum:?}");
                    }
                    if let Err(m) = self.w.keys.bind(s(e, "k"), p.public_key.as_ref()) {
                        viol!(self, ["C01", "C09"], "tree-key", "{party}: {what} node {x}: {m}");
                    }
                }
                (n, t) => {
                    let have = match n {
                        None => "B",
                        Some(Node::Leaf(_)) => "L",
                        Some(Node::Parent(_)) => "P",
                    };
                    viol!(self, ["C01", "C08"], "tree-shape", "{party}: {what} node {x} is {have}, expected {t}");
                }
            }
        }
    }

    /// Oracles on a member whose epoch just changed (or that just joined).
    pub fn epoch_oracles(&mut self, party: &str) {
        let g = match &self.w.parties[party].group {
            Some(g) => g.clone(),
            None => return,
        };
        let tree = g.export_tree();
        let nodes = tree.nodes();
        if let Err(e) = tree_shape_ok(nodes) {
            viol!(self, ["C08"], "tree-shape", "{party}: {e}");
        }
        let cs = self.w.cs(party);
        match independent_tree_hash(&cs, nodes) {
            Ok(h) => {
                if h != g.context().tree_hash {
                    viol!(self, ["C08"], "tree-hash", "{party}: context tree hash differs from the hash recomputed from the exported nodes (epoch {})", g.current_epoch());
                }
            }
            Err(e) => viol!(self, ["C08"], "tree-hash", "{party}: cannot recompute tree hash: {e}"),
        }
        if let Err(e) = observer_accepts(&self.w, party, &g) {
            viol!(self, ["C08"], "tree-validation", "{party}: {e}");
        }
        self.w.bump("epoch_oracles");
        // agreement with everybody the model places in the same epoch
        let my_ks = self.w.parties[party].ks;
        let peers: Vec<String> = self
            .w
            .parties
            .iter()
            .filter(|(n, p)| n.as_str() != party && p.group.is_some() && p.ks == my_ks && my_ks.is_some())
            .map(|(n, _)| n.clone())
            .collect();
        for q in peers {
            let gq = self.w.parties[&q].group.as_ref().unwrap().clone();
            if let Err(e) = agree(&g, &gq) {
                viol!(self, ["C01", "C07"], "agreement", "{party} vs {q}: {e}");
            }
            if let Err(e) = cross_decrypt(&g, &gq) {
                viol!(self, ["C01", "C07"], "cross-decrypt", "{party} -> {q}: {e}");
            }
            if let Err(e) = cross_decrypt(&gq, &g) {
                viol!(self, ["C01", "C07"], "cross-decrypt", "{q} -> {party}: {e}");
            }
            self.w.bump("agreement_pairs");
        }
    }

    fn check_res(&mut self, a: &str, party: &str, want: &str, got: &str) -> bool {
        if want == got {
            return true;
        }
        let props: &[&'static str] = match a {
            "Commit" => &["C10", "C11", "C01"],
            "DeliverCommit" => &["C01", "C10", "C11", "C02"],
            "ApplyPending" | "ClearPending" => &["C11"],
            "JoinWelcome" => &["C07", "C01"],
            "DeliverProposal" | "Propose" => &["C10", "C01"],
            _ => &["C01"],
        };
        viol!(self, props, "outcome", "{a} by {party}: implementation returned {got}, specification says {want}");
        false
    }

    pub fn run_step(&mut self, st: &Value) {
        let a = s(st, "a").to_string();
        let p = s(st, "p").to_string();
        let args = st.get("args").cloned().unwrap_or(json!({}));
        let want = s(st, "res").to_string();
        let out = st.get("out").cloned().unwrap_or(json!({}));
        let before = self.w.parties[&p].group.as_ref().map(|g| g.verif_state());
        let mut epoch_changed = false;
        let got: String = match a.as_str() {
            "GenKeyPackage" => {
                let party = self.w.parties.get_mut(&p).unwrap();
                let ids_before: Vec<Vec<u8>> = match &party.kp.inner {
                    KpBackend::Mem(m) => m.key_packages().into_iter().map(|x| x.0).collect(),
                    _ => vec![],
                };
                match party.client.generate_key_package_message(Default::default(), Default::default(), None) {
                    Ok(m) => {
                        let store_id = match &party.kp.inner {
                            KpBackend::Mem(mm) => mm.key_packages().into_iter().map(|x| x.0).find(|i| !ids_before.contains(i)).unwrap_or_default(),
                            _ => vec![],
                        };
                        let idx = self.w.kps.len() + 1;
                        if let Some(kp) = m.as_key_package() {
                            let init = kp.hpke_init_key.as_ref().to_vec();
                            if let Err(e) = self.w.keys.bind(&format!("kpI{idx}"), &init) {
                                viol!(self, ["C09"], "kp-init-key", "{e}");
                            }
                        }
                        self.w.kps.push(KpEntry { owner: p.clone(), msg: m, store_id });
                        "ok".into()
                    }
                    Err(e) => classify(&e),
                }
            }
            "Propose" => {
                let kind = s(&args, "kind").to_string();
                let kp = args.get("kp").and_then(|k| k.as_u64()).map(|i| self.w.kps[i as usize - 1].msg.clone());
                let party = self.w.parties.get_mut(&p).unwrap();
                let g = party.group.as_mut().unwrap();
                let before_refs: Vec<Vec<u8>> = g.get_cached_proposals().iter().map(|c| c.proposal_ref().as_slice().to_vec()).collect();
                let r = match kind.as_str() {
                    "add" => g.propose_add(kp.unwrap(), vec![]),
                    "rem" => g.propose_remove(u(&args, "target") as u32, vec![]),
                    "upd" => g.propose_update(vec![]),
                    k => panic!("unknown proposal kind {k}"),
                };
                match r {
                    Ok(m) => {
                        let new_ref = g
                            .get_cached_proposals()
                            .iter()
                            .map(|c| c.proposal_ref().as_slice().to_vec())
                            .find(|r| !before_refs.contains(r))
                            .unwrap_or_default();
                        self.w.props.push(m);
                        self.w.prop_refs.push(new_ref);
                        "ok".into()
                    }
                    Err(e) => classify(&e),
                }
            }
            "DeliverProposal" => {
                let m = self.w.props[u(&args, "prop") as usize - 1].clone();
                let g = self.w.parties.get_mut(&p).unwrap().group.as_mut().unwrap();
                match g.process_incoming_message(m) {
                    Ok(ReceivedMessage::Proposal(_)) => "ok".into(),
                    Ok(o) => format!("ok:unexpected:{o:?}"),
                    Err(e) => classify(&e),
                }
            }
            "Commit" => self.do_commit(&p, &args, &out, &want),
            "ClearPending" => {
                let g = self.w.parties.get_mut(&p).unwrap().group.as_mut().unwrap();
                g.clear_pending_commit();
                "ok".into()
            }
            "ApplyPending" => {
                let g = self.w.parties.get_mut(&p).unwrap().group.as_mut().unwrap();
                match g.apply_pending_commit() {
                    Ok(_) => {
                        epoch_changed = true;
                        "ok".into()
                    }
                    Err(e) => classify(&e),
                }
            }
            "DeliverCommit" => {
                let n = u(&args, "commit") as usize;
                let m = self.w.commits[n - 1].msg.clone();
                let own = self.w.commits[n - 1].by == p;
                let g = self.w.parties.get_mut(&p).unwrap().group.as_mut().unwrap();
                match g.process_incoming_message(m) {
                    Ok(ReceivedMessage::Commit(d)) => match d.effect {
                        CommitEffect::NewEpoch(_) => {
                            epoch_changed = true;
                            if own { "ok:own".into() } else { "ok".into() }
                        }
                        CommitEffect::Removed { .. } => "ok:removed".into(),
                        CommitEffect::ReInit(_) => "ok:reinit".into(),
                    },
                    Ok(o) => format!("ok:unexpected:{o:?}"),
                    Err(e) => classify(&e),
                }
            }
            "JoinWelcome" => {
                let n = u(&args, "commit") as usize;
                let kpi = u(&args, "kp") as usize;
                let ce = &self.w.commits[n - 1];
                // the welcome that names this key package
                let party = &self.w.parties[&p];
                let mut res = Err("no welcome for this key package".to_string());
                let tree_bytes = ce.tree.clone();
                for wmsg in ce.output.welcome_messages.iter() {
                    let tree = if self.w.opts.ratchet_tree_ext {
                        None
                    } else {
                        tree_bytes.as_ref().map(|b| mls_rs::group::ExportedTree::from_bytes(b).unwrap())
                    };
                    match party.client.join_group(tree, wmsg, None) {
                        Ok((g, _info)) => {
                            res = Ok(g);
                            break;
                        }
                        Err(e) => res = Err(classify(&e)),
                    }
                }
                let _ = kpi;
                match res {
                    Ok(g) => {
                        self.w.parties.get_mut(&p).unwrap().group = Some(g);
                        epoch_changed = true;
                        "ok".into()
                    }
                    Err(e) => e,
                }
            }
            "Retire" => {
                let party = self.w.parties.get_mut(&p).unwrap();
                if let Some(g) = party.group.take() {
                    party.zombies.push(g);
                }
                party.ks = None;
                "ok".into()
            }
            other => panic!("unknown action {other}"),
        };
        self.w.bump(&format!("{a}:{}", want.split(':').take(2).collect::<Vec<_>>().join(":")));
        let res_ok = self.check_res(&a, &p, &want, &got);
        // C04 / C11: an error (and a reported removal) leaves the member exactly as it was
        if got.starts_with("err") || got == "ok:removed" {
            if let (Some(b), Some(g)) = (before.as_ref(), self.w.parties[&p].group.as_ref()) {
                // a removed member that decrypted an encrypted commit has consumed that message key
                let d: Vec<_> = b.diff(&g.verif_state()).into_iter().filter(|c| !(got == "ok:removed" && self.w.opts.encrypt_controls && *c == "epoch_secrets")).collect();
                if !d.is_empty() {
                    viol!(self, ["C04"], "err-changed-state", "{a} by {p} returned {got} but changed {d:?}");
                }
                self.w.bump("err_state_checks");
            }
        }
        if a == "Commit" && got == "ok" {
            // C11: building a commit leaves the member in its epoch: nothing but the pending commit changes
            if let (Some(b), Some(g)) = (before.as_ref(), self.w.parties[&p].group.as_ref()) {
                let d: Vec<_> = b.diff(&g.verif_state()).into_iter().filter(|c| *c != "pending_commit" && !(self.w.opts.encrypt_controls && *c == "epoch_secrets")).collect();
                if !d.is_empty() {
                    viol!(self, ["C11"], "commit-changed-state", "building a commit changed {d:?} of {p}");
                }
            }
        }
        if !res_ok {
            return;
        }
        if let Some(post) = st.get("post") {
            self.compare_projection(&p, post);
        }
        if epoch_changed && self.viols.is_empty() {
            self.epoch_oracles(&p);
        }
    }

    fn do_commit(&mut self, p: &str, args: &Value, out: &Value, want: &str) -> String {
        let byval = args.get("byval").and_then(|b| b.as_array()).cloned().unwrap_or_default();
        let kps: Vec<Option<MlsMessage>> = byval
            .iter()
            .map(|it| if s(it, "kind") == "add" { Some(self.w.kps[u(it, "kp") as usize - 1].msg.clone()) } else { None })
            .collect();
        self.w.rec.take();
        self.w.rec.set(true, false);
        let party = self.w.parties.get_mut(p).unwrap();
        let g = party.group.as_mut().unwrap();
        let base_epoch = g.current_epoch();
        let r = (|| {
            let mut b = g.commit_builder();
            for (it, kp) in byval.iter().zip(kps.into_iter()) {
                b = match s(it, "kind") {
                    "add" => b.add_member(kp.unwrap())?,
                    "rem" => b.remove_member(u(it, "target") as u32).map_err(|e| match e {
                        mls_rs::error::MlsError::ExpectedNode | mls_rs::error::MlsError::InvalidNodeIndex(_) => mls_rs::error::MlsError::RemovingNonExistingMember,
                        e => e,
                    })?,
                    k => panic!("by-value kind {k}"),
                };
            }
            b.build()
        })();
        self.w.rec.set(false, false);
        let evs = self.w.rec.take();
        match r {
            Err(e) => classify(&e),
            Ok(o) => {
                let tree = o.ratchet_tree.as_ref().map(|t| t.to_bytes().unwrap());
                let msg = o.commit_message.clone();
                if want == "ok" {
                    // --- the new tree announced by the model vs the tree the commit produced
                    if let Some(t) = &o.ratchet_tree {
                        let exp = out.get("newTree").and_then(|t| t.as_array()).cloned().unwrap_or_default();
                        let nodes: Vec<Option<Node>> = t.nodes().to_vec();
                        self.compare_tree(p, &nodes, &exp, "tree of the pending commit");
                    }
                    if o.contains_update_path != out.get("path").and_then(|x| x.as_bool()).unwrap_or(false) {
                        viol!(self, ["C10", "C01"], "commit-path", "commit by {p}: contains_update_path={} but the specification says {}", o.contains_update_path, out.get("path").unwrap_or(&json!(null)));
                    }
                    // --- unused proposals (C10)
                    let mut unused: Vec<Vec<u8>> = vec![];
                    for pi in o.unused_proposals.iter() {
                        if let mls_rs::mls_rules::ProposalSource::ByReference(r) = &pi.source { unused.push(r.as_slice().to_vec()); }
                    }
                    unused.sort();
                    let mut want_unused: Vec<Vec<u8>> = out.get("unused").and_then(|x| x.as_array()).map(|a| a.iter().map(|j| self.w.prop_refs[j.as_u64().unwrap() as usize - 1].clone()).collect()).unwrap_or_default();
                    want_unused.sort();
                    if unused != want_unused {
                        viol!(self, ["C10"], "commit-unused", "commit by {p}: {} unused proposals reported, specification says {}", unused.len(), want_unused.len());
                    }
                    // --- C02: recipients of every HPKE encryption performed while building the commit
                    let mut path_seals: Vec<Vec<u8>> = vec![];
                    let mut welcome_seals: Vec<Vec<u8>> = vec![];
                    for (who, ev) in evs.iter() {
                        if who != p { continue; }
                        if let Ev::HpkeSeal { pk, info, .. } = ev {
                            if find(info, b"UpdatePathNode") { path_seals.push(pk.clone()); }
                            else if find(info, b"Welcome") { welcome_seals.push(pk.clone()); }
                            else { viol!(self, ["C02"], "seal-unknown", "commit by {p}: HPKE seal with unexpected label"); }
                        }
                    }
                    let mut exp_path: Vec<String> = vec![];
                    for r in out.get("recips").and_then(|x| x.as_array()).cloned().unwrap_or_default() {
                        for k in r.get("keys").and_then(|k| k.as_array()).cloned().unwrap_or_default() { exp_path.push(k.as_str().unwrap().to_string()); }
                    }
                    let mut got_path: Vec<String> = path_seals.iter().map(|b| self.w.keys.name_of(b)).collect();
                    got_path.sort(); exp_path.sort();
                    if got_path != exp_path {
                        viol!(self, ["C02"], "path-recipients", "commit by {p}: path secrets sealed to {got_path:?}, specification says {exp_path:?}");
                    }
                    let mut exp_w: Vec<String> = out.get("welcomeKeys").and_then(|x| x.as_array()).map(|a| a.iter().map(|k| k.as_str().unwrap().to_string()).collect()).unwrap_or_default();
                    let mut got_w: Vec<String> = welcome_seals.iter().map(|b| self.w.keys.name_of(b)).collect();
                    got_w.sort(); exp_w.sort();
                    if got_w != exp_w {
                        viol!(self, ["C02", "C07"], "welcome-recipients", "commit by {p}: group secrets sealed to {got_w:?}, specification says {exp_w:?}");
                    }
                    self.w.bump("commit_recipient_checks");
                }
                self.w.commits.push(CommitEntry { by: p.to_string(), output: o, msg, tree, base_epoch });
                "ok".into()
            }
        }
    }

    /// C02: retained groups of removed members must reject all traffic of later epochs.
    pub fn feed_zombies(&mut self) {
        let names: Vec<String> = self.w.parties.keys().cloned().collect();
        for n in names {
            let zs = std::mem::take(&mut self.w.parties.get_mut(&n).unwrap().zombies);
            for mut z in zs {
                let ze = z.current_epoch();
                let auth = z.epoch_authenticator().map(|a| a.as_bytes().to_vec()).unwrap_or_default();
                let mut msgs: Vec<(String, MlsMessage)> = vec![];
                for c in self.w.commits.iter() {
                    if c.base_epoch > ze { msgs.push((format!("commit@{}", c.base_epoch), c.msg.clone())); }
                }
                for (i, m) in self.w.props.iter().enumerate() {
                    if m.epoch().map(|e| e > ze).unwrap_or(false) { msgs.push((format!("proposal#{}", i + 1), m.clone())); }
                }
                for (what, m) in msgs {
                    let before = z.verif_state();
                    match z.process_incoming_message(m) {
                        Ok(r) => viol!(self, ["C02"], "zombie-accepted", "removed member {n} (epoch {ze}) accepted {what}: {r:?}"),
                        Err(_) => {
                            if !before.diff(&z.verif_state()).is_empty() {
                                viol!(self, ["C02", "C04"], "zombie-changed", "removed member {n} changed state while rejecting {what}");
                            }
                        }
                    }
                    self.w.bump("zombie_feeds");
                }
                if z.current_epoch() != ze || z.epoch_authenticator().map(|a| a.as_bytes().to_vec()).unwrap_or_default() != auth {
                    viol!(self, ["C02"], "zombie-advanced", "removed member {n} advanced beyond epoch {ze}");
                }
            }
        }
    }
}

fn find(h: &[u8], n: &[u8]) -> bool {
    h.windows(n.len()).any(|w| w == n)
}

/// Run one behaviour; stops at the first step with violations.
pub fn run_behaviour(b: &Value, opts: Opts, deep: bool) -> Outcome {
    let cfg = b.get("cfg").cloned().unwrap_or(json!({}));
    let mut names: Vec<String> = cfg.get("parties").and_then(|p| p.as_array()).map(|a| a.iter().map(|x| x.as_str().unwrap().to_string()).collect()).unwrap_or_default();
    names.sort();
    let creator = s(&cfg, "creator").to_string();
    let mut opts = opts;
    opts.path_required = cfg.get("pathReq").and_then(|x| x.as_bool()).unwrap_or(false);
    opts.encrypt_controls = cfg.get("enc").and_then(|x| x.as_bool()).unwrap_or(false);
    let w = match World::new(opts, &names, &creator) {
        Ok(w) => w,
        Err(e) => panic!("world: {e}"),
    };
    let mut r = Replayer::new(w, deep);
    let steps = b.get("steps").and_then(|x| x.as_array()).cloned().unwrap_or_default();
    let mut run = 0;
    for (i, st) in steps.iter().enumerate() {
        r.step = i;
        let res = std::panic::catch_unwind(std::panic::AssertUnwindSafe(|| r.run_step(st)));
        if let Err(e) = res {
            let msg = e.downcast_ref::<String>().cloned().or_else(|| e.downcast_ref::<&str>().map(|s| s.to_string())).unwrap_or_default();
            r.viols.push(Viol { props: vec!["C03", "C01"], kind: "panic".into(), what: format!("panic at step {i} ({}): {msg}", s(st, "a")), step: i });
        }
        run = i + 1;
        if !r.viols.is_empty() {
            break;
        }
    }
    if r.viols.is_empty() {
        r.step = steps.len();
        r.feed_zombies();
    }
    Outcome { steps_run: run, viols: r.viols.clone(), stats: r.w.stats.clone(), states: r.states.clone() }
}
