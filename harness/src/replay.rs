//! Direction 1 (specification -> implementation): replay behaviours printed by TLC into the
//! real library and compare outcome, projection and concrete oracles after every step.
//! The harness holds no second model: every expected value comes from the behaviour.
use crate::crypto::Ev;
use crate::oracles::*;
use crate::world::*;
use crate::providers::KpBackend;
use mls_rs::group::{CommitEffect, Node, ReceivedMessage};
use mls_rs::MlsMessage;
use mls_rs_core::crypto::CipherSuiteProvider as _;
use serde_json::{json, Value};
use std::collections::BTreeMap;

#[derive(Debug, Clone)]
pub struct Viol {
    pub props: Vec<&'static str>,
    pub kind: String,
    pub what: String,
    pub step: usize,
}

pub struct Outcome {
    pub steps_run: usize,
    pub viols: Vec<Viol>,
    pub stats: BTreeMap<String, u64>,
    pub states: Vec<String>, // digests of distinct projected states (for coverage counting)
}

fn s<'a>(v: &'a Value, k: &str) -> &'a str {
    v.get(k).and_then(|x| x.as_str()).unwrap_or("")
}
fn u(v: &Value, k: &str) -> u64 {
    v.get(k).and_then(|x| x.as_u64()).unwrap_or(0)
}

pub struct Replayer {
    pub w: World,
    pub viols: Vec<Viol>,
    pub step: usize,
    pub states: Vec<String>,
    pub deep: bool,
    pub faults: bool,
    pub pairs: bool,
    pub reloaded: std::collections::HashSet<String>,
    pub tamper: usize,
    pub tamper_exhaustive: bool,
    pub tamper_seed: u64,
    pub observer: Option<crate::observer::Observer>,
    pub jitter: u64,
    /// feature "newid" of the behaviour: every third commit changes the committer's signing key
    pub new_identity_commits: bool,
}

macro_rules! viol {
    ($self:expr, $props:expr, $kind:expr, $($arg:tt)*) => {
        $self.viols.push(Viol { props: $props.to_vec(), kind: $kind.to_string(), what: format!($($arg)*), step: $self.step })
    };
}

impl Replayer {
    pub fn new(w: World, deep: bool) -> Self {
        Replayer { w, viols: vec![], step: 0, states: vec![], deep, faults: false, pairs: false, reloaded: Default::default(), tamper: 0, tamper_exhaustive: false, tamper_seed: 1, observer: None, jitter: crate::observer::NO_JITTER, new_identity_commits: false }
    }

    /// Compare the real group of `party` with the expected projection `post`.
    pub fn compare_projection(&mut self, party: &str, post: &Value) {
        let st = s(post, "st");
        let has = self.w.parties[party].group.is_some();
        if st == "none" {
            if has {
                viol!(self, ["C01"], "proj-st", "{party}: model has no group, implementation has one");
            }
            return;
        }
        if !has {
            viol!(self, ["C01", "C07"], "proj-st", "{party}: model has a group, implementation has none");
            return;
        }
        let g = self.w.parties[party].group.as_ref().unwrap().clone();
        // epoch
        if g.current_epoch() != u(post, "epoch") {
            viol!(self, ["C01", "C11"], "proj-epoch", "{party}: epoch {} expected {}", g.current_epoch(), u(post, "epoch"));
        }
        if g.current_member_index() as u64 != u(post, "leaf") {
            viol!(self, ["C01", "C07"], "proj-leaf", "{party}: own leaf {} expected {}", g.current_member_index(), u(post, "leaf"));
        }
        let ext_have = g.context().extensions.iter().find(|e| e.extension_type == GCE_EXT).map(|e| u16::from_be_bytes([e.extension_data[0], e.extension_data[1]]) as u64).unwrap_or(0);
        if ext_have != u(post, "ext") {
            viol!(self, ["C01", "C10"], "proj-ext", "{party}: group context extension version {ext_have}, expected {}", u(post, "ext"));
        }
        if g.has_pending_commit() != (u(post, "pend") != 0) {
            viol!(self, ["C11"], "proj-pending", "{party}: has_pending_commit {} expected pend={}", g.has_pending_commit(), u(post, "pend"));
        }
        // epoch secret identity
        let ks = format!("ks{}", u(post, "ks"));
        match g.epoch_authenticator() {
            Ok(a) => {
                if let Err(e) = self.w.secrets.bind(&ks, a.as_bytes()) {
                    viol!(self, ["C01"], "proj-ks", "{party}: epoch authenticator: {e}");
                }
            }
            Err(e) => viol!(self, ["C01"], "proj-ks", "{party}: epoch_authenticator failed {e:?}"),
        }
        self.w.parties.get_mut(party).unwrap().ks = Some(u(post, "ks") as i64);
        // tree
        let tree = g.export_tree();
        let nodes = tree.nodes();
        let exp = post.get("tree").and_then(|t| t.as_array()).cloned().unwrap_or_default();
        self.compare_tree(party, nodes, &exp, "member tree");
        // cached proposals
        let mut have: Vec<Vec<u8>> = g.get_cached_proposals().iter().map(|c| c.proposal_ref().as_slice().to_vec()).collect();
        have.sort();
        let mut want: Vec<Vec<u8>> = post
            .get("cache")
            .and_then(|c| c.as_array())
            .map(|a| a.iter().filter_map(|j| self.w.prop_refs.get(j.as_u64().unwrap() as usize - 1).cloned()).collect())
            .unwrap_or_default();
        want.sort();
        if have != want {
            viol!(self, ["C10", "C06"], "proj-cache", "{party}: cached proposals {} expected {}", have.len(), want.len());
        }
        // private keys
        let (leaf, sks) = g.verif_private_keys();
        let n = leaf_count_of(nodes.len());
        let dp = direct_path(2 * leaf as usize, n);
        let mut have_nodes = vec![];
        for (i, k) in sks.iter().enumerate() {
            if let Some(k) = k {
                let x = if i == 0 { 2 * leaf as usize } else { *dp.get(i - 1).unwrap_or(&usize::MAX) };
                have_nodes.push((x, k.clone()));
            }
        }
        let exp_priv: Vec<(usize, String)> = post
            .get("priv")
            .and_then(|p| p.as_array())
            .map(|a| a.iter().map(|e| (e[0].as_u64().unwrap() as usize, e[1].as_str().unwrap().to_string())).collect())
            .unwrap_or_default();
        let hn: Vec<usize> = {
            let mut v: Vec<usize> = have_nodes.iter().map(|x| x.0).collect();
            v.sort();
            v
        };
        let en: Vec<usize> = {
            let mut v: Vec<usize> = exp_priv.iter().map(|x| x.0).collect();
            v.sort();
            v
        };
        if hn != en {
            viol!(self, ["C09"], "proj-priv-set", "{party}: holds private keys for nodes {hn:?}, expected {en:?}");
        }
        let cs = self.w.cs(party);
        for (x, sk) in &have_nodes {
            match nodes.get(*x).and_then(|n| n.as_ref()) {
                None => viol!(self, ["C09"], "priv-blank", "{party}: stores a private key for blank node {x}"),
                Some(nd) => {
                    if !key_pair_matches(&cs, sk, nd.public_key().as_ref()) {
                        viol!(self, ["C09"], "priv-mismatch", "{party}: private key stored for node {x} does not open what is sealed to that node's public key");
                    }
                }
            }
        }
        // digest for distinct-state counting
        let dig = format!(
            "{}|{}|{}|{:?}|{:?}",
            u(post, "epoch"),
            u(post, "leaf"),
            exp.iter().map(|n| s(n, "t")).collect::<String>(),
            en,
            post.get("cache")
        );
        self.states.push(dig);
    }

    /// Repository queues and stored history of `party` vs the model (C06, C19).
    pub fn compare_aux(&mut self, party: &str, aux: &Value) {
        let gid = self.w.gid.clone();
        let lst = |v: &Value, k: &str| -> Vec<u64> { v.get(k).and_then(|x| x.as_array()).map(|a| a.iter().map(|e| e.as_u64().unwrap()).collect()).unwrap_or_default() };
        if let Some(g) = self.w.parties[party].group.as_ref() {
            let st = g.verif_state();
            let ins = st.pending_insert_epochs();
            let mut upd = st.pending_update_epochs();
            upd.sort();
            if ins != lst(aux, "ins") {
                viol!(self, ["C06", "C19", "C15"], "repo-inserts", "{party}: prior epochs queued for insertion {ins:?}, specification says {:?}", lst(aux, "ins"));
            }
            if upd != lst(aux, "upd") {
                viol!(self, ["C06", "C19"], "repo-updates", "{party}: prior epochs loaded from storage {upd:?}, specification says {:?}", lst(aux, "upd"));
            }
        }
        let stored = self.w.parties[party].gs.stored_epochs(&gid);
        if stored != lst(aux, "stored") {
            viol!(self, ["C06", "C19"], "stored-epochs", "{party}: storage retains prior epochs {stored:?}, specification says {:?}", lst(aux, "stored"));
        }
        let has = self.w.parties[party].gs.peek_state(&gid).is_some();
        if has != aux.get("hasSnap").and_then(|x| x.as_bool()).unwrap_or(false) {
            viol!(self, ["C06"], "stored-snapshot", "{party}: stored snapshot present={has}, specification says otherwise");
        }
    }

    pub fn compare_tree(&mut self, party: &str, nodes: &[Option<Node>], exp: &[Value], what: &str) {
        if nodes.len() != exp.len() {
            viol!(self, ["C01", "C08"], "tree-len", "{party}: {what} has {} nodes, expected {}", nodes.len(), exp.len());
            return;
        }
        for (x, (n, e)) in nodes.iter().zip(exp.iter()).enumerate() {
            let t = s(e, "t");
            match (n, t) {
                (None, "B") => {}
                (Some(Node::Leaf(l)), "L") => {
                    let who = l.signing_identity.credential.as_basic().map(|b| String::from_utf8_lossy(&b.identifier).to_string()).unwrap_or_default();
                    if who != s(e, "who") {
                        viol!(self, ["C01", "C08"], "tree-who", "{party}: {what} leaf at node {x} belongs to {who}, expected {}", s(e, "who"));
                    }
                    let src = match l.leaf_node_source {
                        mls_rs::group::LeafNodeSource::KeyPackage(_) => "kp",
                        mls_rs::group::LeafNodeSource::Update => "upd",
                        mls_rs::group::LeafNodeSource::Commit(_) => "commit",
                    };
                    if src != s(e, "src") {
                        viol!(self, ["C01", "C08"], "tree-src", "{party}: {what} leaf at node {x} has source {src}, expected {}", s(e, "src"));
                    }
                    // the leaf's signature key changes exactly when the specification's key version (cv) does
                    if let Err(m) = self.w.keys.bind(&format!("sig-{}-{}", s(e, "who"), u(e, "cv")), l.signing_identity.signature_key.as_bytes()) {
                        viol!(self, ["C01", "C08"], "tree-sigkey", "{party}: {what} leaf at node {x}: {m}");
                    }
                    if let Err(m) = self.w.keys.bind(s(e, "k"), l.public_key.as_ref()) {
                        viol!(self, ["C01", "C09"], "tree-key", "{party}: {what} node {x}: {m}");
                    }
                }
                (Some(Node::Parent(p)), "P") => {
                    let um: Vec<u64> = p.unmerged_leaves.iter().map(|l| **l as u64).collect();
                    let eum: Vec<u64> = e.get("um").and_then(|a| a.as_array()).map(|a| a.iter().map(|v| v.as_u64().unwrap()).collect()).unwrap_or_default();
                    if um != eum {
                        viol!(self, ["C01", "C08"], "tree-um", "{party}: {what} node {x} unmerged {um:?}, expected {eum:?}");
                    }
                    if let Err(m) = self.w.keys.bind(s(e, "k"), p.public_key.as_ref()) {
                        viol!(self, ["C01", "C09"], "tree-key", "{party}: {what} node {x}: {m}");
                    }
                }
                (n, t) => {
                    let have = match n {
                        None => "B",
                        Some(Node::Leaf(_)) => "L",
                        Some(Node::Parent(_)) => "P",
                    };
                    viol!(self, ["C01", "C08"], "tree-shape", "{party}: {what} node {x} is {have}, expected {t}");
                }
            }
        }
    }

    /// Oracles on a member whose epoch just changed (or that just joined).
    pub fn epoch_oracles(&mut self, party: &str) {
        let g = match &self.w.parties[party].group {
            Some(g) => g.clone(),
            None => return,
        };
        let tree = g.export_tree();
        let nodes = tree.nodes();
        if let Err(e) = tree_shape_ok(nodes) {
            viol!(self, ["C08"], "tree-shape", "{party}: {e}");
        }
        let cs = self.w.cs(party);
        match independent_tree_hash(&cs, nodes) {
            Ok(h) => {
                if h != g.context().tree_hash {
                    viol!(self, ["C08"], "tree-hash", "{party}: context tree hash differs from the hash recomputed from the exported nodes (epoch {})", g.current_epoch());
                }
            }
            Err(e) => viol!(self, ["C08"], "tree-hash", "{party}: cannot recompute tree hash: {e}"),
        }
        if let Err(e) = observer_accepts(&self.w, party, &g) {
            viol!(self, ["C08"], "tree-validation", "{party}: {e}");
        }
        self.w.bump("epoch_oracles");
        // agreement with everybody the model places in the same epoch
        let my_ks = self.w.parties[party].ks;
        let peers: Vec<String> = self
            .w
            .parties
            .iter()
            .filter(|(n, p)| n.as_str() != party && p.group.is_some() && p.ks == my_ks && my_ks.is_some())
            .map(|(n, _)| n.clone())
            .collect();
        for q in peers {
            let gq = self.w.parties[&q].group.as_ref().unwrap().clone();
            if let Err(e) = agree(&g, &gq) {
                viol!(self, ["C01", "C07"], "agreement", "{party} vs {q}: {e}");
            }
            if let Err(e) = cross_decrypt(&g, &gq, self.reloaded.contains(party)) {
                viol!(self, ["C01", "C07"], "cross-decrypt", "{party} -> {q}: {e}");
            }
            if let Err(e) = cross_decrypt(&gq, &g, self.reloaded.contains(&q)) {
                viol!(self, ["C01", "C07"], "cross-decrypt", "{q} -> {party}: {e}");
            }
            self.w.bump("agreement_pairs");
        }
    }

    fn check_res(&mut self, a: &str, party: &str, want: &str, got: &str) -> bool {
        if want == got {
            return true;
        }
        // which of several violated RFC 12.2 rules is reported first is not part of any property
        if want.starts_with("err:rule") && got.starts_with("err:rule") {
            return true;
        }
        // C17: a successor group cannot be joined without the old group's state of the right epoch -- which
        // error says so is not part of the property
        if want == "err:succ" && got.starts_with("err") {
            return true;
        }
        // outcomes of named deviations carry the finding's id as a suffix ("err:epoch:F14")
        if let Some((base, tag)) = want.rsplit_once(':') {
            if tag.starts_with('F') && tag[1..].chars().all(|c| c.is_ascii_digit()) && base == got {
                return true;
            }
        }
        let props: &[&'static str] = match a {
            "Commit" => &["C10", "C11", "C01"],
            "DeliverCommit" => &["C01", "C10", "C11", "C02"],
            "ApplyPending" | "ClearPending" | "ApplyDetached" | "CommitDetached" => &["C11", "C01"],
            "DeliverApp" => &["C05", "C19", "C01"],
            "Encrypt" => &["C05", "C01"],
            "Write" | "Load" => &["C06", "C15"],
            "JoinWelcome" => &["C07", "C01"],
            "SuccCreate" | "SuccJoin" | "SuccForge" => &["C17"],
            "DeliverProposal" | "Propose" => &["C10", "C01"],
            _ => &["C01"],
        };
        viol!(self, props, "outcome", "{a} by {party}: implementation returned {got}, specification says {want}");
        false
    }

    /// The executor for callers outside the replayer (the random driver): no expected values are known.
    pub fn exec_pub(&mut self, a: &str, p: &String, args: &Value, out: &Value, want: &str) -> (String, bool) {
        self.exec(a, p, args, out, want)
    }

    /// Execute one API call; returns the outcome class and whether the member changed epoch.
    fn exec(&mut self, a: &str, p: &String, args: &Value, out: &Value, want: &str) -> (String, bool) {
        let p = p.clone();
        let args = args.clone();
        let out = out.clone();
        let want = want.to_string();
        let mut epoch_changed = false;
        let got: String = match a {
            "GenKeyPackage" => {
                let probe_cs = self.w.cs(&p);
                let party = self.w.parties.get_mut(&p).unwrap();
                let ids_before: Vec<Vec<u8>> = match &party.kp.inner {
                    KpBackend::Mem(m) => m.key_packages().into_iter().map(|x| x.0).collect(),
                    _ => vec![],
                };
                let bad = s(&args, "bad").to_string();
                let gen = match bad.as_str() {
                    // expired: lifetime starting in the year 2000; cred: an identity every identity provider rejects
                    "expired" => self.w.bad_clients["bad-expired"].generate_key_package_message(Default::default(), Default::default(), Some(mls_rs::time::MlsTime::from(946_684_800u64))),
                    "cred" => self.w.bad_clients["rejected"].generate_key_package_message(Default::default(), Default::default(), None),
                    _ if args.get("lr").and_then(|b| b.as_bool()).unwrap_or(false) => {
                        use mls_rs::extension::MlsExtension;
                        let mut kpx = mls_rs::ExtensionList::new();
                        kpx.set(mls_rs::extension::recommended::LastResortKeyPackageExt.into_extension().expect("last resort ext"));
                        party.client.generate_key_package_message(kpx, Default::default(), None)
                    }
                    _ => party.client.generate_key_package_message(Default::default(), Default::default(), None),
                };
                match gen {
                    Ok(m) => {
                        let store_id = match &party.kp.inner {
                            KpBackend::Mem(mm) => mm.key_packages().into_iter().map(|x| x.0).find(|i| !ids_before.contains(i)).unwrap_or_default(),
                            // the storage id of a key package is its reference
                            _ => m.key_package_reference(&probe_cs).ok().flatten().map(|r| r.to_vec()).unwrap_or_default(),
                        };
                        let idx = self.w.kps.len() + 1;
                        if let Some(kp) = m.as_key_package() {
                            let init = kp.hpke_init_key.as_ref().to_vec();
                            if let Err(e) = self.w.keys.bind(&format!("kpI{idx}"), &init) {
                                viol!(self, ["C09"], "kp-init-key", "{e}");
                            }
                        }
                        if args.get("lr").and_then(|b| b.as_bool()).unwrap_or(false) { self.w.last_resort.insert(store_id.clone()); }
                        self.w.kps.push(KpEntry { owner: p.clone(), msg: m, store_id });
                        "ok".into()
                    }
                    Err(e) => classify(&e),
                }
            }
            "Propose" => {
                let kind = s(&args, "kind").to_string();
                let kp = args.get("kp").and_then(|k| k.as_u64()).filter(|i| *i > 0).map(|i| self.w.kps[i as usize - 1].msg.clone());
                let suite = self.w.suite;
                let probe_new_sig = if kind == "upd" { self.w.cs(&p).signature_key_generate().ok() } else { None };
                let party = self.w.parties.get_mut(&p).unwrap();
                let g = party.group.as_mut().unwrap();
                let before_refs: Vec<Vec<u8>> = g.get_cached_proposals().iter().map(|c| c.proposal_ref().as_slice().to_vec()).collect();
                // C03: every proposal carries its own authenticated data; receivers must report exactly it
                let pad = format!("ad-p{}", u(&args, "prop")).into_bytes();
                let my_leaf = g.current_member_index();
                let r = match kind.as_str() {
                    "add" => g.propose_add(kp.unwrap(), pad.clone()),
                    "rem" => g.propose_remove(u(&args, "target") as u32, pad.clone()),
                    // every third update also changes the member's signing key (same identity): the receivers'
                    // identity provider accepts it as a valid successor, and the proposer switches signer only when
                    // a commit carrying the update is accepted (F4)
                    "upd" if self.new_identity_commits && u(&args, "prop") % 3 == 0 => {
                        let (sk, pk) = probe_new_sig.clone().expect("new signature key");
                        let id = mls_rs::identity::SigningIdentity::new(mls_rs::identity::basic::BasicCredential::new(p.as_bytes().to_vec()).into_credential(), pk);
                        g.propose_update_with_identity(sk, id, pad.clone())
                    }
                    "upd" => g.propose_update(pad.clone()),
                    "psk" => g.propose_external_psk(mls_rs::psk::ExternalPskId::new(s(&args, "id").as_bytes().to_vec()), pad.clone()),
                    "rpsk" => g.propose_resumption_psk(u(&args, "pe"), pad.clone()),
                    "gce" => g.propose_group_context_extensions(gce_list(u(&args, "ver")), pad.clone()),
                    "custom" => g.propose_custom(custom_proposal(u(&args, "ver")), pad.clone()),
                    "reinit" => g.propose_reinit(Some(b"verif-group-next".to_vec()), mls_rs::ProtocolVersion::MLS_10, suite, Default::default(), pad.clone()),
                    k => panic!("unknown proposal kind {k}"),
                };
                match r {
                    Ok(m) => {
                        let new_ref = g
                            .get_cached_proposals()
                            .iter()
                            .map(|c| c.proposal_ref().as_slice().to_vec())
                            .find(|r| !before_refs.contains(r))
                            .unwrap_or_default();
                        self.w.props.push(m);
                        self.w.prop_refs.push(new_ref);
                        self.w.prop_meta.push((kind.clone(), format!("member:{my_leaf}"), pad));
                        "ok".into()
                    }
                    Err(e) => classify(&e),
                }
            }
            "DeliverProposal" => {
                let j = u(&args, "prop") as usize;
                let m = self.w.props[j - 1].clone();
                let meta = self.w.prop_meta.get(j - 1).cloned();
                let g = self.w.parties.get_mut(&p).unwrap().group.as_mut().unwrap();
                match g.process_incoming_message(m) {
                    Ok(ReceivedMessage::Proposal(d)) => {
                        // C03: an accepted proposal is reported with its true sender, content kind and authenticated data
                        if let Some((kind, sender, ad)) = meta {
                            let got_sender = match d.sender {
                                mls_rs::group::ProposalSender::Member(l) => format!("member:{l}"),
                                mls_rs::group::ProposalSender::External(i) => format!("external:{i}"),
                                mls_rs::group::ProposalSender::NewMember => "newmember".to_string(),
                                _ => "other".to_string(),
                            };
                            use mls_rs::group::proposal::Proposal as P;
                            let got_kind = match &d.proposal { P::Add(_) => "add", P::Update(_) => "upd", P::Remove(_) => "rem", P::Psk(x) => if x.external_psk_id().is_some() { "psk" } else { "rpsk" },
                                P::ReInit(_) => "reinit", P::GroupContextExtensions(_) => "gce", P::Custom(_) => "custom", _ => "other" };
                            if got_sender != sender || got_kind != kind || d.authenticated_data != ad {
                                viol!(self, ["C03"], "proposal-misreported", "{p}: proposal {j} reported as {got_kind} from {got_sender} with authenticated data {:?}; it is {kind} from {sender} with {:?}", String::from_utf8_lossy(&d.authenticated_data), String::from_utf8_lossy(&ad));
                            }
                            self.w.bump("proposal_report_checks");
                        }
                        "ok".into()
                    }
                    Ok(o) => format!("ok:unexpected:{o:?}"),
                    Err(e) => classify(&e),
                }
            }
            "Commit" => self.do_commit(&p, &args, &out, &want, false),
            "CommitDetached" => self.do_commit(&p, &args, &out, &want, true),
            "DsChoose" => { "ok".to_string() }
            "ApplyDetached" => {
                let n = u(&args, "commit") as usize;
                // the application keeps the secrets of a detached commit until it has been applied (a failed
                // attempt -- storage error, stale commit -- does not consume them)
                let sec = self.w.detached.get(&(p.clone(), n)).cloned();
                let g = self.w.parties.get_mut(&p).unwrap().group.as_mut().unwrap();
                match sec {
                    None => "err:no-secrets".into(),
                    Some(sec) => match g.apply_detached_commit(sec) {
                        Ok(_) => { epoch_changed = true; self.w.detached.remove(&(p.clone(), n)); "ok".into() }
                        Err(e) => classify(&e),
                    },
                }
            }
            "Encrypt" => {
                let k = u(&args, "k") as usize;
                let idx = self.w.apps.len() + 1;
                let g = self.w.parties.get_mut(&p).unwrap().group.as_mut().unwrap();
                let mut msgs = vec![];
                let mut res = "ok".to_string();
                for i in 0..k {
                    let payload = format!("app{idx}:{i}").into_bytes();
                    match g.encrypt_application_message(&payload, b"aad".to_vec()) {
                        Ok(m) => msgs.push(m),
                        Err(e) => { res = classify(&e); break; }
                    }
                }
                if res == "ok" { self.w.apps.push((p.clone(), msgs)); }
                res
            }
            "DeliverApp" => {
                let a = u(&args, "app") as usize;
                let gen = u(&args, "gen") as usize;
                let lo = self.w.app_lo.get(&a).copied().unwrap_or(0);
                let (sender, msgs) = &self.w.apps[a - 1];
                let sender_leaf = self.w.app_leaf.get(&a).copied();
                let m = msgs[gen - lo].clone();
                let sender = sender.clone();
                let g = self.w.parties.get_mut(&p).unwrap().group.as_mut().unwrap();
                match g.process_incoming_message(m) {
                    Ok(ReceivedMessage::ApplicationMessage(d)) => {
                        let want_payload = format!("app{a}:{}", gen - lo).into_bytes();
                        if d.data() != want_payload.as_slice() || d.authenticated_data != b"aad" || Some(d.sender_index) != sender_leaf {
                            viol!(self, ["C03", "C19"], "app-misreported", "{p}: application message of {sender} reported with wrong payload, authenticated data or sender index {}", d.sender_index);
                        }
                        "ok".into()
                    }
                    Ok(o) => format!("ok:unexpected:{o:?}"),
                    Err(e) => classify(&e),
                }
            }
            "Write" => {
                let gid0 = self.w.gid.clone();
                let party = self.w.parties.get_mut(&p).unwrap();
                let g = party.group.as_mut().unwrap();
                let pre = g.verif_state();
                // were the queued updates modified since they were loaded (or merely cached)?
                let modified_before = match self.w.written.get(&p) {
                    Some(w0) if w0.pending_update_epochs().is_empty() => { let gs0 = party.gs.clone(); !pre.pending_updates_only_cached(w0, |id| gs0.peek_epoch(&gid0, id)) }
                    _ => false,
                };
                match g.write_to_storage() {
                    Ok(()) => {
                        let st = g.verif_state();
                        // C06: every prior-epoch record that was queued as an update is in storage as it was queued
                        // (unless retention has trimmed that epoch)
                        let gs = party.gs.clone();
                        let kept = gs.stored_epochs(&gid0);
                        let upd = pre.pending_update_epochs();
                        if !upd.is_empty() && upd.iter().all(|e| kept.contains(e)) {
                            if !pre.pending_updates_only_cached(&st, |id| gs.peek_epoch(&gid0, id)) {
                                viol!(self, ["C06", "C19"], "stored-update-lost", "{p}: after write_to_storage a stored prior epoch among {upd:?} is not the record that was queued for update");
                            }
                            self.w.bump("stored_update_checks");
                            if upd.windows(2).any(|w| w[0] > w[1]) {
                                self.w.bump("stored_update_checks:newer-epoch-first");
                                if modified_before { self.w.bump("stored_update_checks:newer-epoch-first:modified"); }
                            }
                        }
                        self.w.written.insert(p.clone(), st);
                        // C07: once the joiner persists its group the used key package is gone from its store
                        if let Some(id) = self.w.joined_with.get(&p) {
                            if self.w.last_resort.contains(id) {
                                // a last-resort package is never used up
                                if self.w.parties[&p].kp.peek(id).is_none() {
                                    viol!(self, ["C07"], "last-resort-kp-deleted", "{p}: the last-resort key package used to join was deleted from the key-package store");
                                }
                                self.w.bump("last_resort_kept_checks");
                            } else if self.w.parties[&p].kp.peek(id).is_some() {
                                viol!(self, ["C07"], "kp-not-deleted", "{p}: key package used to join is still in the key-package store after write_to_storage");
                            }
                            self.w.bump("kp_deleted_checks");
                        }
                        "ok".into()
                    }
                    Err(e) => classify(&e),
                }
            }
            "Load" => {
                let gid = self.w.gid.clone();
                let party = self.w.parties.get_mut(&p).unwrap();
                party.group = None;
                match party.client.load_group(&gid) {
                    Ok(g) => {
                        // the loaded object is not the one that joined: a join that was never written is forgotten,
                        // and with it the queued deletion of its key package
                        self.w.joined_with.remove(&p);
                        // C06: the loaded group is the group that was written
                        if let Some(wst) = self.w.written.get(&p) {
                            // the queued key-package deletion is a one-shot note of the joining process, not state
                            let d: Vec<_> = wst.diff(&g.verif_state()).into_iter().filter(|c| *c != "repo_key_package_removal").collect();
                            if !d.is_empty() {
                                viol!(self, ["C06"], "load-differs", "{p}: group loaded from storage differs from the group written in {d:?}");
                            }
                        }
                        self.w.parties.get_mut(&p).unwrap().group = Some(g);
                        self.w.detached.retain(|k, _| k.0 != p);
                        self.reloaded.insert(p.clone());
                        self.w.bump("load_equals_written_checks");
                        "ok".into()
                    }
                    Err(e) => classify(&e),
                }
            }
            "ClearPending" => {
                let g = self.w.parties.get_mut(&p).unwrap().group.as_mut().unwrap();
                g.clear_pending_commit();
                "ok".into()
            }
            "ApplyPending" => {
                let g = self.w.parties.get_mut(&p).unwrap().group.as_mut().unwrap();
                match g.apply_pending_commit() {
                    Ok(_) => {
                        epoch_changed = true;
                        "ok".into()
                    }
                    Err(e) => classify(&e),
                }
            }
            "DeliverCommit" => {
                let n = u(&args, "commit") as usize;
                let m = self.w.commits[n - 1].msg.clone();
                let own = self.w.commits[n - 1].by == p;
                let (exp_leaf, exp_ad) = (self.w.commits[n - 1].by_leaf, self.w.commits[n - 1].ad.clone());
                let g = self.w.parties.get_mut(&p).unwrap().group.as_mut().unwrap();
                let processed = g.process_incoming_message(m);
                if let Ok(ReceivedMessage::Commit(d)) = &processed {
                    // C03: an accepted commit is reported with its true committer and authenticated data
                    if d.committer != exp_leaf || d.authenticated_data != exp_ad {
                        viol!(self, ["C03"], "commit-misreported", "{p}: commit {n} reported from leaf {} with authenticated data {:?}; it is from leaf {exp_leaf} with {:?}", d.committer, String::from_utf8_lossy(&d.authenticated_data), String::from_utf8_lossy(&exp_ad));
                    }
                    self.w.bump("commit_report_checks");
                }
                match processed {
                    Ok(ReceivedMessage::Commit(d)) => match d.effect {
                        CommitEffect::NewEpoch(_) => {
                            epoch_changed = true;
                            if own { "ok:own".into() } else { "ok".into() }
                        }
                        CommitEffect::Removed { .. } => "ok:removed".into(),
                        // a re-init commit advances the epoch like any other (and freezes the group)
                        CommitEffect::ReInit(_) => {
                            epoch_changed = true;
                            if own { "ok:own".into() } else { "ok".into() }
                        }
                    },
                    Ok(o) => format!("ok:unexpected:{o:?}"),
                    Err(e) => classify(&e),
                }
            }
            "JoinWelcome" => {
                let n = u(&args, "commit") as usize;
                let kpi = u(&args, "kp") as usize;
                let ce = &self.w.commits[n - 1];
                // the welcome that names this key package
                let party = &self.w.parties[&p];
                let mut res = Err("no welcome for this key package".to_string());
                let tree_bytes = ce.tree.clone();
                let my_ref = self.w.kps[kpi - 1].store_id.clone();
                for wmsg in ce.welcomes.iter() {
                    // the Welcome that names this key package (single or per-member Welcome messages)
                    if !my_ref.is_empty() && !wmsg.welcome_key_package_references().iter().any(|r| r.to_vec() == my_ref) {
                        continue;
                    }
                    let tree = if self.w.opts.ratchet_tree_ext {
                        None
                    } else {
                        tree_bytes.as_ref().map(|b| mls_rs::group::ExportedTree::from_bytes(b).unwrap())
                    };
                    res = match party.client.join_group(tree, wmsg, None) {
                        Ok((g, _info)) => Ok(g),
                        Err(e) => Err(classify(&e)),
                    };
                    break;
                }
                match res {
                    Ok(g) => {
                        self.w.parties.get_mut(&p).unwrap().group = Some(g);
                        let id = self.w.kps[kpi - 1].store_id.clone();
                        if !id.is_empty() {
                            // C07: not deleted before the group is persisted
                            if self.w.parties[&p].kp.peek(&id).is_none() {
                                viol!(self, ["C07"], "kp-deleted-early", "{p}: key package private keys disappeared before the new group was written to storage");
                            }
                            self.w.joined_with.insert(p.clone(), id);
                        }
                        epoch_changed = true;
                        "ok".into()
                    }
                    Err(e) => e,
                }
            }
            "ExternalCommit" => {
                let from = s(&args, "from").to_string();
                let resync = args.get("resync").and_then(|b| b.as_bool()).unwrap_or(false);
                let old_leaf = u(&args, "oldLeaf") as u32;
                let (gi, tree, base_epoch) = {
                    let g = self.w.parties[&from].group.as_ref().unwrap();
                    let in_ext = self.w.opts.ratchet_tree_ext;
                    (g.group_info_message_allowing_ext_commit(in_ext), if in_ext { None } else { Some(g.export_tree().into_owned()) }, g.current_epoch())
                };
                let gi = match gi {
                    Ok(m) => m,
                    Err(e) => return (classify(&e), false),
                };
                let mark = self.w.rec.len();
                let r = (|| {
                    let mut b = self.w.parties[&p].client.external_commit_builder()?;
                    if resync { b = b.with_removal(old_leaf); }
                    if let Some(t) = tree { b = b.with_tree_data(t); }
                    b.build(gi)
                })();
                let evs = self.w.rec.since(mark);
                match r {
                    Ok((g, msg)) => {
                        // C02: the joiner's path secrets go to exactly the copath resolutions of the new tree
                        let mut sealed: Vec<Vec<u8>> = vec![];
                        for (who, ev) in evs.iter() {
                            if who != &p { continue; }
                            if let Ev::HpkeSeal { pk, info, .. } = ev {
                                if find(info, b"UpdatePathNode") { sealed.push(pk.clone()); }
                            }
                        }
                        let exp_tree = out.get("newTree").and_then(|t| t.as_array()).cloned().unwrap_or_default();
                        let exported = g.export_tree().into_owned();
                        if want == "ok" { self.compare_tree(&p, exported.nodes(), &exp_tree, "tree of the external commit"); }
                        let mut got_path: Vec<String> = sealed.iter().map(|b| self.w.keys.name_of(b)).collect();
                        let mut exp_path: Vec<String> = vec![];
                        for r in out.get("recips").and_then(|x| x.as_array()).cloned().unwrap_or_default() {
                            for k in r.get("keys").and_then(|k| k.as_array()).cloned().unwrap_or_default() { exp_path.push(k.as_str().unwrap().to_string()); }
                        }
                        got_path.sort(); exp_path.sort();
                        if want == "ok" && got_path != exp_path {
                            viol!(self, ["C02"], "path-recipients", "external commit by {p}: path secrets sealed to {got_path:?}, specification says {exp_path:?}");
                        }
                        self.w.bump("commit_recipient_checks");
                        let tree_bytes = g.export_tree().to_bytes().ok();
                        let ext_leaf = g.current_member_index();
                        self.w.parties.get_mut(&p).unwrap().group = Some(g);
                        // a group joined through a Welcome and given up before it was ever written keeps its key package
                        self.w.joined_with.remove(&p);
                        self.w.commits.push(CommitEntry { by: p.clone(), welcomes: vec![], msg, tree: tree_bytes, base_epoch, forged: vec![], by_leaf: ext_leaf, ad: vec![] });
                        epoch_changed = true;
                        "ok".into()
                    }
                    Err(e) => classify(&e),
                }
            }
            "NewMemberPropose" => {
                let from = s(&args, "from").to_string();
                let (gi, tree) = {
                    let g = self.w.parties[&from].group.as_ref().unwrap();
                    let in_ext = self.w.opts.ratchet_tree_ext;
                    (g.group_info_message(in_ext), if in_ext { None } else { Some(g.export_tree().into_owned()) })
                };
                let gi = match gi { Ok(m) => m, Err(e) => return (classify(&e), false) };
                let probe_cs = self.w.cs(&p);
                let ids_before: Vec<Vec<u8>> = match &self.w.parties[&p].kp.inner {
                    KpBackend::Mem(m) => m.key_packages().into_iter().map(|x| x.0).collect(),
                    _ => vec![],
                };
                match self.w.parties[&p].client.external_add_proposal(&gi, tree, vec![], Default::default(), Default::default(), None) {
                    Ok(m) => {
                        // the key package inside the proposal, as a key package message (for by-value adds of the same package)
                        let mut probe = self.w.parties[&from].group.as_ref().unwrap().clone();
                        let kp_msg = match probe.process_incoming_message(m.clone()) {
                            Ok(ReceivedMessage::Proposal(d)) => match d.proposal {
                                mls_rs::group::proposal::Proposal::Add(a) => {
                                    use mls_rs_codec::MlsEncode;
                                    let mut b = vec![0u8, 1, 0, 5];
                                    b.extend(a.key_package().mls_encode_to_vec().unwrap_or_default());
                                    MlsMessage::from_bytes(&b).ok()
                                }
                                _ => None,
                            },
                            _ => None,
                        };
                        let kp_msg = match kp_msg { Some(k) => k, None => { viol!(self, ["C10"], "newmember-proposal", "{p}: the new-member proposal is not an Add that the members of its epoch can read"); return ("err:unreadable".into(), false); } };
                        let store_id = match &self.w.parties[&p].kp.inner {
                            KpBackend::Mem(mm) => mm.key_packages().into_iter().map(|x| x.0).find(|i| !ids_before.contains(i)).unwrap_or_default(),
                            _ => kp_msg.key_package_reference(&probe_cs).ok().flatten().map(|r| r.to_vec()).unwrap_or_default(),
                        };
                        let idx = self.w.kps.len() + 1;
                        if let Some(kp) = kp_msg.as_key_package() {
                            let init = kp.hpke_init_key.as_ref().to_vec();
                            if let Err(e) = self.w.keys.bind(&format!("kpI{idx}"), &init) { viol!(self, ["C09"], "kp-init-key", "{e}"); }
                        }
                        let pref = {
                            // the proposal's reference, as the probe cached it
                            probe.get_cached_proposals().iter().map(|c| c.proposal_ref().as_slice().to_vec()).find(|r| !self.w.prop_refs.contains(r)).unwrap_or_default()
                        };
                        self.w.kps.push(KpEntry { owner: p.clone(), msg: kp_msg, store_id });
                        self.w.props.push(m);
                        self.w.prop_refs.push(pref);
                        self.w.prop_meta.push(("add".to_string(), "newmember".to_string(), vec![]));
                        "ok".into()
                    }
                    Err(e) => classify(&e),
                }
            }
            "SuccCreate" => {
                let kind = s(&args, "kind").to_string();
                let kp_msgs: Vec<MlsMessage> = args.get("kps").and_then(|k| k.as_array()).map(|a| a.iter().map(|i| self.w.kps[i.as_u64().unwrap() as usize - 1].msg.clone()).collect()).unwrap_or_default();
                let g = self.w.parties[&p].group.as_ref().unwrap().clone();
                let old_gid = g.group_id().to_vec();
                let n = self.w.succ.len() + 1;
                // an insider deviating from the announcement (hooks verif_tweak_announcement / verif_branch_with_extensions)
                let tweak = args.get("tweak").and_then(|t| t.as_str()).unwrap_or("none").to_string();
                let tw_gid = if tweak == "gid" { Some(b"verif-group-elsewhere".to_vec()) } else { None };
                let tw_ext = if tweak == "ext" { Some(gce_list(777)) } else { None };
                let r = match kind.as_str() {
                    "reinit" => g.get_reinit_client(None, None).and_then(|mut rc| {
                        if tweak != "none" { rc.verif_tweak_announcement(tw_gid.clone(), tw_ext.clone()); }
                        rc.commit(kp_msgs, Default::default(), None)
                    }),
                    _ => match tw_ext.clone() {
                        Some(x) => g.verif_branch_with_extensions(format!("verif-branch-{n}").into_bytes(), kp_msgs, x),
                        None => g.branch(format!("verif-branch-{n}").into_bytes(), kp_msgs, None),
                    },
                };
                match r {
                    Ok((ng, welcomes)) => {
                        if tweak != "none" { self.w.bump(&format!("succ_tweaked:{kind}:{tweak}")); }
                        let exp_gid = if tweak == "gid" { b"verif-group-elsewhere".to_vec() } else if kind == "reinit" { b"verif-group-next".to_vec() } else { format!("verif-branch-{n}").into_bytes() };
                        if ng.group_id() != exp_gid.as_slice() || ng.group_id() == old_gid.as_slice() {
                            viol!(self, ["C17"], "succ-gid", "{p}: successor ({kind}) has an unexpected group id");
                        }
                        self.check_successor(&p, &ng, &out, None);
                        let old_tree = self.w.parties[&p].group.as_ref().unwrap().export_tree().into_owned();
                        let blank_leaf = old_tree.nodes().iter().step_by(2).any(|n| n.is_none());
                        self.w.bump(&format!("succ_created:{kind}{}", if blank_leaf { ":old-tree-with-blank-leaf" } else { "" }));
                        self.w.succ.push(SuccEntry { kind, group: ng, welcomes, joined: vec![], tweak });
                        "ok".into()
                    }
                    Err(e) => classify(&e),
                }
            }
            "SuccForge" => {
                // an ordinary group with the public parameters of a successor, built without the old group's secret
                let kind = s(&args, "kind").to_string();
                let kp_msgs: Vec<MlsMessage> = args.get("kps").and_then(|k| k.as_array()).map(|a| a.iter().map(|i| self.w.kps[i.as_u64().unwrap() as usize - 1].msg.clone()).collect()).unwrap_or_default();
                let n = self.w.succ.len() + 1;
                let gid = if kind == "reinit" { b"verif-group-next".to_vec() } else { format!("verif-branch-{n}").into_bytes() };
                let ext = u(&args, "ext");
                let exts = if ext == 0 { mls_rs::ExtensionList::new() } else { gce_list(ext) };
                let client = self.w.parties[&p].client.clone();
                let r = (|| {
                    let mut g = client.create_group_with_id(gid, exts, Default::default(), None)?;
                    let mut b = g.commit_builder();
                    for kp in kp_msgs { b = b.add_member(kp)?; }
                    let o = b.build()?;
                    g.apply_pending_commit()?;
                    Ok::<_, mls_rs::error::MlsError>((g, o.welcome_messages))
                })();
                match r {
                    Ok((ng, welcomes)) => {
                        self.check_successor(&p, &ng, &out, None);
                        self.w.bump(&format!("succ_forged:{kind}"));
                        self.w.succ.push(SuccEntry { kind, group: ng, welcomes, joined: vec![], tweak: "none".into() });
                        "ok".into()
                    }
                    Err(e) => classify(&e),
                }
            }
            "SuccJoin" => {
                let si = u(&args, "succ") as usize - 1;
                let how = s(&args, "how").to_string();
                let kpi = u(&args, "kp") as usize;
                let my_ref = self.w.kps[kpi - 1].store_id.clone();
                let welcome = self.w.succ[si].welcomes.iter().find(|w| w.welcome_key_package_references().iter().any(|r| r.to_vec() == my_ref)).cloned();
                let welcome = match welcome {
                    Some(w) => w,
                    None => {
                        viol!(self, ["C17"], "succ-no-welcome", "{p}: the successor's creator produced no Welcome for key package {kpi}");
                        return ("err:no-welcome".into(), false);
                    }
                };
                let tree = if self.w.opts.ratchet_tree_ext { None } else { Some(self.w.succ[si].group.export_tree().into_owned()) };
                let party = &self.w.parties[&p];
                let r = match how.as_str() {
                    "plain" => party.client.join_group(tree, &welcome, None),
                    "reinit" => party.group.as_ref().unwrap().clone().get_reinit_client(None, None).and_then(|rc| rc.join(&welcome, tree, None)),
                    _ => party.group.as_ref().unwrap().join_subgroup(&welcome, tree, None),
                };
                match r {
                    Ok((ng, _)) => {
                        if want == "ok" {
                            self.check_successor(&p, &ng, &out, Some(si));
                            let k = self.w.succ[si].kind.clone();
                            self.w.bump(&format!("succ_joined:{k}"));
                            self.w.succ[si].joined.push(ng);
                        }
                        "ok".into()
                    }
                    Err(e) => {
                        // a join through the matching API that only the comparison with the announcement stops
                        let (tw, k) = (self.w.succ[si].tweak.clone(), self.w.succ[si].kind.clone());
                        if tw != "none" && how == k {
                            let name: String = format!("{e:?}").chars().take_while(|c| c.is_alphanumeric()).collect();
                            self.w.bump(&format!("succ_tweak_rejected:{tw}:{name}"));
                        }
                        classify(&e)
                    }
                }
            }
            "Retire" => {
                let party = self.w.parties.get_mut(&p).unwrap();
                if let Some(g) = party.group.take() {
                    party.zombies.push(g);
                }
                party.ks = None;
                "ok".into()
            }
            other => panic!("unknown action {other}"),
        };
        (got, epoch_changed)
    }

    /// C15: fail every storage call of the operation in turn (then pairs of adjacent calls); each
    /// faulted attempt must return a storage error and leave member and storage untouched; the final,
    /// fault-free attempt is the step proper and is compared with the model as usual.
    fn exec_with_faults(&mut self, a: &str, p: &String, args: &Value, out: &Value, want: &str) -> (String, bool) {
        let gid = self.w.gid.clone();
        let mut k = 0usize;
        let mut pair = false;
        loop {
            let held = if a == "Load" { self.w.parties[p].group.clone() } else { None };
            let pre_state = self.w.parties[p].group.as_ref().map(|g| g.verif_state());
            let pre_store = (self.w.parties[p].gs.peek_state(&gid), self.w.parties[p].gs.stored_epochs(&gid));
            let pre_pending = self.w.parties[p].group.as_ref().map(|g| g.has_pending_commit());
            let plan: Vec<usize> = if pair { vec![k, k + 1] } else { vec![k] };
            self.w.parties[p].ctl.arm(&plan);
            let mark = self.w.parties[p].ctl.mark();
            let (got, ch) = self.exec(a, p, args, out, want);
            let injected = self.w.parties[p].ctl.disarm();
            let failed_calls: Vec<String> = self.w.parties[p].ctl.since(mark).into_iter().filter(|c| c.ends_with('!')).collect();
            if injected == 0 {
                if !pair && k > 0 && self.pairs {
                    // all single positions done: one more round with pairs, then the real attempt
                    pair = true;
                    k = 0;
                    // the attempt above was fault-free and is the step proper
                }
                return (got, ch);
            }
            self.w.bump("storage_faults_injected");
            self.w.bump(&format!("fault:{a}"));
            if !got.starts_with("err") {
                viol!(self, ["C15"], "fault-not-surfaced", "{a} by {p}: storage call {plan:?} failed but the operation returned {got}");
                return (got, ch);
            }
            if a == "Load" {
                if let Some(h) = held { self.w.parties.get_mut(p).unwrap().group = Some(h); }
            }
            if let (Some(b), Some(g)) = (pre_state.as_ref(), self.w.parties[p].group.as_ref()) {
                // Write is two storage operations (group state, then key-package deletion): when only the second
                // fails the queued epochs have legitimately been flushed; the stored history is compared with
                // the model after the retry instead.
                let after = g.verif_state();
                // a Write whose group-state write succeeded (only the key-package deletion failed) has flushed the queues
                let flushed = a == "Write" && !failed_calls.iter().any(|c| c == "gs.write!");
                let d: Vec<_> = b.diff(&after).into_iter().filter(|c| *c != "repo_updates" && !(flushed && *c == "repo_inserts")).collect();
                // queued updates of stored prior epochs may grow (records loaded into the cache) but are never lost
                let (ub, ua) = (b.pending_update_epochs(), after.pending_update_epochs());
                if !flushed && !ub.iter().all(|e| ua.contains(e)) {
                    viol!(self, ["C15"], "fault-lost-updates", "{a} by {p}: storage call {plan:?} ({failed_calls:?}) failed and queued prior-epoch updates {ub:?} shrank to {ua:?}");
                    return (got, ch);
                }
                if !d.is_empty() {
                    viol!(self, ["C15", "C04"], "fault-changed-state", "{a} by {p}: storage call {plan:?} failed and the member changed in {d:?}");
                    return (got, ch);
                }
                if pre_pending != Some(g.has_pending_commit()) {
                    viol!(self, ["C15"], "fault-lost-pending", "{a} by {p}: storage call {plan:?} failed and the pending commit was lost");
                    return (got, ch);
                }
            }
            let post_store = (self.w.parties[p].gs.peek_state(&gid), self.w.parties[p].gs.stored_epochs(&gid));
            if a != "Write" && pre_store != post_store {
                viol!(self, ["C15"], "fault-changed-storage", "{a} by {p}: storage call {plan:?} failed and the stored history changed");
                return (got, ch);
            }
            k += 1;
            if k > 12 { return (got, ch); }
        }
    }

    pub fn run_step(&mut self, st: &Value) {
        let a = s(st, "a").to_string();
        let p = s(st, "p").to_string();
        let args = st.get("args").cloned().unwrap_or(json!({}));
        let want = s(st, "res").to_string();
        let out = st.get("out").cloned().unwrap_or(json!({}));
        if a == "DsChoose" { return; }
        if p == "observer" {
            self.run_obs_step(&a, &args, &want, st.get("post"));
            return;
        }
        if self.tamper > 0 || self.tamper_exhaustive {
            self.tamper_probe(&a, &p, &args);
            if !self.viols.is_empty() { return; }
        }
        let before = self.w.parties[&p].group.as_ref().map(|g| g.verif_state());
        let storage_op = matches!(a.as_str(), "ApplyPending" | "ApplyDetached" | "DeliverCommit" | "DeliverApp" | "Write" | "Load" | "JoinWelcome" | "GenKeyPackage" | "Commit" | "CommitDetached");
        let (got, epoch_changed) = if self.faults && storage_op && (a == "Write" || !FAULTS_WRITE_ONLY.load(std::sync::atomic::Ordering::Relaxed)) {
            self.exec_with_faults(&a, &p, &args, &out, &want)
        } else {
            self.exec(&a, &p, &args, &out, &want)
        };
        if !self.viols.is_empty() { return; }
        if a == "Encrypt" && got == "ok" {
            let idx = self.w.apps.len();
            self.w.app_lo.insert(idx, u(&out, "lo") as usize);
            if let Some(g) = self.w.parties[&p].group.as_ref() { self.w.app_leaf.insert(idx, g.current_member_index()); }
        }
        self.w.bump(&format!("{a}:{}", want.split(':').take(2).collect::<Vec<_>>().join(":")));
        let res_ok = self.check_res(&a, &p, &want, &got);
        // C04 / C11: an error (and a reported removal) leaves the member exactly as it was
        if got.starts_with("err") || got == "ok:removed" {
            if let (Some(b), Some(g)) = (before.as_ref(), self.w.parties[&p].group.as_ref()) {
                // a removed member that decrypted an encrypted commit has consumed that message key
                let after = g.verif_state();
                // a stored prior-epoch record that was merely loaded into the repository's cache (byte-identical
                // to what storage holds) is not a change of the member
                let gid = self.w.gid.clone();
                let gs = self.w.parties[&p].gs.clone();
                let cache_only = after.pending_updates_only_cached(b, |id| gs.peek_epoch(&gid, id));
                let d: Vec<_> = b.diff(&after).into_iter().filter(|c| !(got == "ok:removed" && self.w.opts.encrypt_controls && *c == "epoch_secrets") && !(*c == "repo_updates" && cache_only)).collect();
                if !d.is_empty() {
                    viol!(self, ["C04"], "err-changed-state", "{a} by {p} returned {got} but changed {d:?}");
                }
                self.w.bump("err_state_checks");
            }
        }
        if (a == "Commit" || a == "CommitDetached") && got == "ok" {
            // C11: building a commit leaves the member in its epoch: nothing but the pending commit changes
            if let (Some(b), Some(g)) = (before.as_ref(), self.w.parties[&p].group.as_ref()) {
                let d: Vec<_> = b.diff(&g.verif_state()).into_iter().filter(|c| !(a == "Commit" && *c == "pending_commit") && !(self.w.opts.encrypt_controls && *c == "epoch_secrets")).collect();
                if !d.is_empty() {
                    viol!(self, ["C11"], "commit-changed-state", "building a commit changed {d:?} of {p}");
                }
            }
        }
        if !res_ok {
            return;
        }
        // C12 / C06: for everything the member would write to storage the announced size is the encoded size
        if matches!(a.as_str(), "DeliverApp" | "Write" | "Load" | "ApplyPending" | "DeliverCommit" | "JoinWelcome" | "Encrypt" | "Propose" | "Commit") {
            if let Some(g) = self.w.parties[&p].group.as_ref() {
                for (name, announced, written) in g.verif_encoded_lengths() {
                    if announced != written {
                        viol!(self, ["C12", "C06"], "encoded-len", "{p} after {a}: mls_encoded_len of {name} is {announced} but {written} bytes are written");
                    }
                }
                self.w.bump("encoded_len_checks");
            }
        }
        if let Some(post) = st.get("post") {
            self.compare_projection(&p, post);
        }
        if let Some(aux) = st.get("aux") {
            self.compare_aux(&p, aux);
        }
        if epoch_changed && self.viols.is_empty() {
            self.epoch_oracles(&p);
        }
    }

    /// C17: a successor group as created / joined: epoch 1, the specification's member set (by identity), the
    /// announced extensions, and -- for a joiner -- the creator's epoch secret, tree and a working application channel.
    fn check_successor(&mut self, p: &str, ng: &mls_rs::Group<Cfg>, out: &Value, joined_to: Option<usize>) {
        if ng.current_epoch() != 1 {
            viol!(self, ["C17"], "succ-epoch", "{p}: successor group is in epoch {}, expected 1", ng.current_epoch());
        }
        let mut have: Vec<String> = ng.roster().members_iter().map(|m| m.signing_identity.credential.as_basic().map(|b| String::from_utf8_lossy(&b.identifier).to_string()).unwrap_or_default()).collect();
        have.sort();
        let mut want: Vec<String> = out.get("members").and_then(|m| m.as_array()).map(|a| a.iter().map(|x| x.as_str().unwrap().to_string()).collect()).unwrap_or_default();
        want.sort();
        if have != want {
            viol!(self, ["C17"], "succ-members", "{p}: successor group has members {have:?}, specification says {want:?}");
        }
        let ext_have = ng.context().extensions.iter().find(|e| e.extension_type == GCE_EXT).map(|e| u16::from_be_bytes([e.extension_data[0], e.extension_data[1]]) as u64).unwrap_or(0);
        if ext_have != u(out, "ext") {
            viol!(self, ["C17"], "succ-ext", "{p}: successor group context extension version {ext_have}, expected {}", u(out, "ext"));
        }
        if let Some(si) = joined_to {
            let cg = &self.w.succ[si].group;
            let same = cg.epoch_authenticator().ok().map(|a| a.as_bytes().to_vec()) == ng.epoch_authenticator().ok().map(|a| a.as_bytes().to_vec())
                && cg.context() == ng.context()
                && cg.export_tree().to_bytes().ok() == ng.export_tree().to_bytes().ok();
            if !same {
                viol!(self, ["C17", "C01"], "succ-agreement", "{p}: joined the successor group but does not share its creator's context, tree or epoch secret");
            }
            let mut sender = cg.clone();
            let mut recv = ng.clone();
            match sender.encrypt_application_message(b"succ-ping", vec![]) {
                Ok(m) => match recv.process_incoming_message(m) {
                    Ok(ReceivedMessage::ApplicationMessage(d)) if d.data() == b"succ-ping" => {}
                    o => viol!(self, ["C17", "C01"], "succ-channel", "{p}: cannot read the successor creator's application message: {:?}", o.map(|_| ())),
                },
                Err(e) => viol!(self, ["C17"], "succ-channel", "successor creator cannot encrypt: {e:?}"),
            }
            self.w.bump("succ_join_checked");
        } else {
            self.w.bump("succ_create_checked");
        }
    }

    /// C16: one step of the external observer; every call is made under catch_unwind so that a panic is reported
    /// as the C16 violation it is.
    fn run_obs_step(&mut self, a: &str, args: &Value, want: &str, post: Option<&Value>) {
        use std::panic::{catch_unwind, AssertUnwindSafe};
        let got: Result<String, String> = match a {
            "ObsJoin" => {
                let from = s(args, "from").to_string();
                let with_tree = self.step % 2 == 0;
                let g = self.w.parties[&from].group.as_ref().unwrap();
                let gi = g.group_info_message(with_tree).expect("group_info_message");
                let tree = if with_tree { None } else { Some(g.export_tree().into_owned()) };
                let backend = self.w.opts.backends[0];
                let jit = self.jitter;
                let signer = self.w.ext_signer.clone();
                catch_unwind(AssertUnwindSafe(|| {
                    let mut o = crate::observer::Observer::new(backend, jit, signer);
                    let r = o.join(gi, tree);
                    (o, r)
                }))
                .map(|(o, r)| {
                    self.observer = Some(o);
                    r
                })
                .map_err(|_| "observe_group".to_string())
            }
            "ObsDeliverProposal" | "ObsDeliverCommit" | "ObsDeliverApp" => {
                let m = match a {
                    "ObsDeliverProposal" => self.w.props[u(args, "prop") as usize - 1].clone(),
                    "ObsDeliverCommit" => self.w.commits[u(args, "commit") as usize - 1].msg.clone(),
                    _ => {
                        let ai = u(args, "app") as usize;
                        let lo = self.w.app_lo.get(&ai).copied().unwrap_or(0);
                        self.w.apps[ai - 1].1[u(args, "gen") as usize - lo].clone()
                    }
                };
                let o = self.observer.as_mut().expect("observer exists");
                catch_unwind(AssertUnwindSafe(|| o.process(m))).map(|r| r.0).map_err(|_| "process_incoming_message".to_string())
            }
            "ObsPropose" => {
                let kind = s(args, "kind").to_string();
                let arg = args.get("arg").and_then(|a| a.as_u64()).unwrap_or(0);
                let kp = if kind == "add" { Some(self.w.kps[arg as usize - 1].msg.clone()) } else { None };
                let o = self.observer.as_mut().expect("observer exists");
                let g = o.group.as_mut().expect("observer group");
                let before: Vec<Vec<u8>> = g.get_cached_proposals().iter().map(|c| c.proposal_ref().as_slice().to_vec()).collect();
                let pad = format!("ad-p{}", u(args, "prop")).into_bytes();
                let pad2 = pad.clone();
                let prop_no = u(args, "prop");
                let suite = self.w.suite;
                let psk_id = args.get("arg").and_then(|a| a.as_str()).unwrap_or("").to_string();
                let r = catch_unwind(AssertUnwindSafe(|| match (kind.as_str(), kp) {
                    (_, Some(k)) => g.propose_add(k, pad2.clone()),
                    ("gce", _) => g.propose_group_context_extensions(gce_list(prop_no), pad2.clone()),
                    ("custom", _) => g.propose_custom(custom_proposal(prop_no), pad2.clone()),
                    ("reinit", _) => g.propose_reinit(Some(b"verif-group-next".to_vec()), mls_rs::ProtocolVersion::MLS_10, suite, Default::default(), pad2.clone()),
                    ("psk", _) => g.propose_external_psk(mls_rs::psk::ExternalPskId::new(psk_id.as_bytes().to_vec()), pad2.clone()),
                    _ => g.propose_remove(arg as u32, pad2.clone()),
                }));
                match r {
                    Ok(Ok(m)) => {
                        let new_ref = g.get_cached_proposals().iter().map(|c| c.proposal_ref().as_slice().to_vec()).find(|r| !before.contains(r)).unwrap_or_default();
                        self.w.props.push(m);
                        self.w.prop_refs.push(new_ref);
                        self.w.prop_meta.push((kind.clone(), "external:1".to_string(), pad));
                        Ok("ok".into())
                    }
                    Ok(Err(e)) => Ok(classify(&e)),
                    Err(_) => Err("propose".to_string()),
                }
            }
            "ObsSnapshotRestore" => {
                let o = self.observer.as_mut().expect("observer exists");
                match catch_unwind(AssertUnwindSafe(|| o.snapshot_restore())) {
                    Ok(Ok(())) => Ok("ok".into()),
                    Ok(Err(e)) => {
                        viol!(self, ["C16", "C06"], "obs-snapshot", "observer snapshot/restore: {e}");
                        return;
                    }
                    Err(_) => Err("snapshot/load_group".to_string()),
                }
            }
            _ => panic!("unknown observer action {a}"),
        };
        let got = match got {
            Ok(g) => g,
            Err(wher) => {
                viol!(self, ["C16"], "obs-panic", "observer panicked in {wher} at {a} {args} (jitter {})", self.jitter);
                return;
            }
        };
        self.w.bump(&format!("{a}:{}", want.split(':').take(2).collect::<Vec<_>>().join(":")));
        let same = got == want || (want.starts_with("err:rule") && got.starts_with("err:") && got != "err:epoch" && got != "err:proposal-not-found");
        if !same {
            viol!(self, ["C16"], "obs-outcome", "{a} {args}: observer returned {got}, specification says {want}");
            return;
        }
        // projection: epoch, extensions, tree, cached proposals; and the very group context of a member of that epoch
        let post = match post { Some(p) if s(p, "st") == "observer" => p.clone(), _ => return };
        let (ctx, exported, mut have, roster, obs_tree_bytes) = {
            let g = self.observer.as_ref().unwrap().group.as_ref().unwrap();
            let have: Vec<Vec<u8>> = g.get_cached_proposals().iter().map(|c| c.proposal_ref().as_slice().to_vec()).collect();
            let roster: Vec<(u32, Vec<u8>)> = g.roster().members_iter().map(|m| (m.index, m.signing_identity.signature_key.as_bytes().to_vec())).collect();
            (g.group_context().clone(), g.exported_tree().into_owned(), have, roster, g.export_tree().ok())
        };
        have.sort();
        if ctx.epoch != u(&post, "epoch") {
            viol!(self, ["C16"], "obs-epoch", "observer at epoch {}, expected {}", ctx.epoch, u(&post, "epoch"));
            return;
        }
        let ext_have = ctx.extensions.iter().find(|e| e.extension_type == GCE_EXT).map(|e| u16::from_be_bytes([e.extension_data[0], e.extension_data[1]]) as u64).unwrap_or(0);
        if ext_have != u(&post, "ext") {
            viol!(self, ["C16"], "obs-ext", "observer group context extension version {ext_have}, expected {}", u(&post, "ext"));
        }
        let exp = post.get("tree").and_then(|t| t.as_array()).cloned().unwrap_or_default();
        let before = self.viols.len();
        self.compare_tree("observer", exported.nodes(), &exp, "observer tree");
        for v in self.viols[before..].iter_mut() {
            v.props = vec!["C16"];
        }
        let mut wantc: Vec<Vec<u8>> = post
            .get("cache")
            .and_then(|c| c.as_array())
            .map(|a| a.iter().filter_map(|j| self.w.prop_refs.get(j.as_u64().unwrap() as usize - 1).cloned()).collect())
            .unwrap_or_default();
        wantc.sort();
        if have != wantc {
            viol!(self, ["C16"], "obs-cache", "observer caches {} proposals, expected {}", have.len(), wantc.len());
        }
        // any member that is in the same epoch (same epoch secret id) holds the same context and roster
        let ks = post.get("ks").and_then(|k| k.as_i64()).unwrap_or(-1);
        let mut compared = 0;
        let names: Vec<String> = self.w.parties.keys().cloned().collect();
        for n in names {
            let pa = &self.w.parties[&n];
            if pa.ks != Some(ks) { continue; }
            if let Some(mg) = pa.group.as_ref() {
                if mg.current_epoch() != ctx.epoch { continue; }
                compared += 1;
                if mg.context() != &ctx {
                    viol!(self, ["C16"], "obs-context", "observer and member {n} are in epoch {} of the same history but hold different group contexts", ctx.epoch);
                }
                let mr: Vec<(u32, Vec<u8>)> = mg.roster().members_iter().map(|m| (m.index, m.signing_identity.signature_key.as_bytes().to_vec())).collect();
                if mr != roster {
                    viol!(self, ["C16"], "obs-roster", "observer and member {n} hold different rosters in epoch {}", ctx.epoch);
                }
                if mg.export_tree().to_bytes().ok() != obs_tree_bytes {
                    viol!(self, ["C16"], "obs-tree-bytes", "observer and member {n} export different ratchet trees in epoch {}", ctx.epoch);
                }
            }
        }
        if compared > 0 { self.w.bump("obs_member_context_compared"); }
        self.w.bump("obs_steps");
    }

    fn do_commit(&mut self, p: &str, args: &Value, out: &Value, want: &str, detached: bool) -> String {
        let byval = args.get("byval").and_then(|b| b.as_array()).cloned().unwrap_or_default();
        let kps: Vec<Option<MlsMessage>> = byval
            .iter()
            .map(|it| if s(it, "kind") == "add" { Some(self.w.kps[u(it, "kp") as usize - 1].msg.clone()) } else { None })
            .collect();
        let suite = self.w.suite;
        // C03 insider model: the same member, from the same state and proposals, builds structurally invalid commits
        // (verif_tamper_next_commit hook); they are offered to every receiver before the authentic commit
        let commit_ad = format!("ad-c{}", self.w.commits.len() + 1).into_bytes();
        let by_leaf = self.w.parties[p].group.as_ref().map(|g| g.current_member_index()).unwrap_or(0);
        let mut forged: Vec<(String, MlsMessage)> = vec![];
        if (self.tamper > 0 || self.tamper_exhaustive) && want == "ok" && !detached {
            self.w.rec.set(false, false);
            for kind in ["path-short", "path-empty", "path-long", "path-foreign-key", "path-no-ciphertexts", "stale-confirmation-tag"] {
                let mut c = self.w.parties[p].group.as_ref().unwrap().clone();
                c.verif_tamper_next_commit(kind);
                let kps2 = kps.clone();
                let r = std::panic::catch_unwind(std::panic::AssertUnwindSafe(|| build_commit(&mut c, &byval, kps2, suite, false, commit_ad.clone(), None)));
                if let Ok(Ok((o, _))) = r {
                    if o.contains_update_path || kind == "stale-confirmation-tag" { forged.push((kind.to_string(), o.commit_message)); }
                }
            }
            self.w.rec.set(true, false);
        }
        // every third commit also changes the committer's signing key (same identity)
        let new_identity = if self.new_identity_commits && (self.w.commits.len() + 1) % 3 == 0 {
            self.w.cs(p).signature_key_generate().ok().map(|(sk, pk)| (sk, mls_rs::identity::SigningIdentity::new(mls_rs::identity::basic::BasicCredential::new(p.as_bytes().to_vec()).into_credential(), pk)))
        } else { None };
        let mark = self.w.rec.len();
        let party = self.w.parties.get_mut(p).unwrap();
        let g = party.group.as_mut().unwrap();
        let base_epoch = g.current_epoch();
        let r = build_commit(g, &byval, kps, suite, detached, commit_ad.clone(), new_identity);
        let evs = self.w.rec.since(mark);
        match r {
            Err(e) => classify(&e),
            Ok((o, secrets)) => {
                if let Some(sec) = secrets { let n = self.w.commits.len() + 1; self.w.detached.insert((p.to_string(), n), sec); }
                let tree = o.ratchet_tree.as_ref().map(|t| t.to_bytes().unwrap());
                let msg = o.commit_message.clone();
                if want == "ok" {
                    // --- the new tree announced by the model vs the tree the commit produced
                    if let Some(t) = &o.ratchet_tree {
                        let exp = out.get("newTree").and_then(|t| t.as_array()).cloned().unwrap_or_default();
                        let nodes: Vec<Option<Node>> = t.nodes().to_vec();
                        self.compare_tree(p, &nodes, &exp, "tree of the pending commit");
                    }
                    if o.contains_update_path != out.get("path").and_then(|x| x.as_bool()).unwrap_or(false) {
                        viol!(self, ["C10", "C01"], "commit-path", "commit by {p}: contains_update_path={} but the specification says {}", o.contains_update_path, out.get("path").unwrap_or(&json!(null)));
                    }
                    // --- unused proposals (C10)
                    let mut unused: Vec<Vec<u8>> = vec![];
                    for pi in o.unused_proposals.iter() {
                        if let mls_rs::mls_rules::ProposalSource::ByReference(r) = &pi.source { unused.push(r.as_slice().to_vec()); }
                    }
                    unused.sort();
                    let mut want_unused: Vec<Vec<u8>> = out.get("unused").and_then(|x| x.as_array()).map(|a| a.iter().map(|j| self.w.prop_refs[j.as_u64().unwrap() as usize - 1].clone()).collect()).unwrap_or_default();
                    want_unused.sort();
                    if unused != want_unused {
                        viol!(self, ["C10"], "commit-unused", "commit by {p}: {} unused proposals reported, specification says {}", unused.len(), want_unused.len());
                    }
                    // --- C02: recipients of every HPKE encryption performed while building the commit
                    let mut path_seals: Vec<Vec<u8>> = vec![];
                    let mut welcome_seals: Vec<Vec<u8>> = vec![];
                    for (who, ev) in evs.iter() {
                        if who != p { continue; }
                        if let Ev::HpkeSeal { pk, info, .. } = ev {
                            if find(info, b"UpdatePathNode") { path_seals.push(pk.clone()); }
                            else if find(info, b"Welcome") { welcome_seals.push(pk.clone()); }
                            else { viol!(self, ["C02"], "seal-unknown", "commit by {p}: HPKE seal with unexpected label"); }
                        }
                    }
                    let mut exp_path: Vec<String> = vec![];
                    for r in out.get("recips").and_then(|x| x.as_array()).cloned().unwrap_or_default() {
                        for k in r.get("keys").and_then(|k| k.as_array()).cloned().unwrap_or_default() { exp_path.push(k.as_str().unwrap().to_string()); }
                    }
                    let mut got_path: Vec<String> = path_seals.iter().map(|b| self.w.keys.name_of(b)).collect();
                    got_path.sort(); exp_path.sort();
                    if got_path != exp_path {
                        viol!(self, ["C02"], "path-recipients", "commit by {p}: path secrets sealed to {got_path:?}, specification says {exp_path:?}");
                    }
                    let mut exp_w: Vec<String> = out.get("welcomeKeys").and_then(|x| x.as_array()).map(|a| a.iter().map(|k| k.as_str().unwrap().to_string()).collect()).unwrap_or_default();
                    let mut got_w: Vec<String> = welcome_seals.iter().map(|b| self.w.keys.name_of(b)).collect();
                    got_w.sort(); exp_w.sort();
                    if got_w != exp_w {
                        viol!(self, ["C02", "C07"], "welcome-recipients", "commit by {p}: group secrets sealed to {got_w:?}, specification says {exp_w:?}");
                    }
                    self.w.bump("commit_recipient_checks");
                }
                self.w.commits.push(CommitEntry { by: p.to_string(), welcomes: o.welcome_messages.clone(), msg, tree, base_epoch, forged, by_leaf, ad: commit_ad });
                "ok".into()
            }
        }
    }

    /// C03 / C04: before an authentic message is delivered, modified copies of it are offered to a clone of
    /// the receiver: single-bit flips, truncations, splices with another authentic message of the same kind.
    /// The specification's verdict for every non-identical copy is "reject" (MlsGroup.tla: only messages of
    /// the delivery-service log are ever accepted): the clone must return an error, must not panic and must
    /// be left exactly as it was.
    pub fn tamper_probe(&mut self, a: &str, p: &String, args: &Value) {
        use rand::{Rng, SeedableRng};
        if a == "JoinWelcome" {
            self.tamper_welcome(p, args);
            return;
        }
        let (orig, others): (MlsMessage, Vec<MlsMessage>) = match a {
            "DeliverProposal" => (self.w.props[u(args, "prop") as usize - 1].clone(), self.w.props.clone()),
            "DeliverCommit" => (self.w.commits[u(args, "commit") as usize - 1].msg.clone(), self.w.commits.iter().map(|c| c.msg.clone()).collect()),
            "DeliverApp" => {
                let ai = u(args, "app") as usize;
                let lo = self.w.app_lo.get(&ai).copied().unwrap_or(0);
                let msgs = &self.w.apps[ai - 1].1;
                (msgs[u(args, "gen") as usize - lo].clone(), msgs.clone())
            }
            _ => return,
        };
        let bytes = match orig.to_bytes() {
            Ok(b) => b,
            Err(_) => return,
        };
        let g0 = match self.w.parties[p].group.as_ref() {
            Some(g) => g.clone(),
            None => return,
        };
        let mut rng = rand::rngs::StdRng::seed_from_u64(self.tamper_seed ^ (self.step as u64) << 20 ^ bytes.len() as u64);
        let mut variants: Vec<(String, Vec<u8>)> = vec![];
        if self.tamper_exhaustive && bytes.len() <= 1500 {
            for i in 0..bytes.len() * 8 {
                let mut b = bytes.clone();
                b[i / 8] ^= 1 << (i % 8);
                variants.push((format!("flip bit {i}"), b));
            }
            for t in 0..bytes.len() {
                variants.push((format!("truncate to {t}"), bytes[..t].to_vec()));
            }
        } else {
            for _ in 0..self.tamper {
                let i = rng.random_range(0..bytes.len() * 8);
                let mut b = bytes.clone();
                b[i / 8] ^= 1 << (i % 8);
                variants.push((format!("flip bit {i}"), b));
            }
            for _ in 0..(self.tamper / 3).max(1) {
                let t = rng.random_range(0..bytes.len());
                variants.push((format!("truncate to {t}"), bytes[..t].to_vec()));
            }
        }
        // splice: a window of another authentic message of the same kind copied over the same offsets
        for o in others.iter().take(6) {
            if let Ok(ob) = o.to_bytes() {
                if ob != bytes && ob.len() > 8 {
                    for _ in 0..2 {
                        let len = rng.random_range(1..=ob.len().min(bytes.len()).min(64));
                        let at = rng.random_range(0..=ob.len().min(bytes.len()) - len);
                        let mut b = bytes.clone();
                        b[at..at + len].copy_from_slice(&ob[at..at + len]);
                        if b != bytes {
                            variants.push((format!("splice {len} bytes at {at}"), b));
                        }
                    }
                }
            }
        }
        let before = g0.verif_state();
        for (what, b) in variants.iter() {
            let m = match MlsMessage::from_bytes(b) {
                Ok(m) => m,
                Err(_) => { self.w.bump("tamper_rejected_by_decoder"); continue; }
            };
            if m.to_bytes().map(|x| x == bytes).unwrap_or(false) {
                continue; // decodes to the identical message
            }
            let mut g = g0.clone();
            let r = std::panic::catch_unwind(std::panic::AssertUnwindSafe(|| g.process_incoming_message(m)));
            match r {
                Err(_) => viol!(self, ["C03"], "tamper-panic", "{p}: processing a modified {a} message ({what}) panicked"),
                Ok(Ok(res)) => viol!(self, ["C03"], "tamper-accepted", "{p}: a modified copy of an authentic message ({a}, {what}) was accepted: {:?}", format!("{res:?}").chars().take(120).collect::<String>()),
                Ok(Err(_)) => {
                    let d = before.diff(&g.verif_state());
                    let gs = self.w.parties[p].gs.clone();
                    let gid = self.w.gid.clone();
                    let cached = g.verif_state().pending_updates_only_cached(&before, |id| gs.peek_epoch(&gid, id));
                    let d: Vec<_> = d.into_iter().filter(|c| !(*c == "repo_updates" && cached)).collect();
                    if !d.is_empty() {
                        viol!(self, ["C04", "C03"], "tamper-changed-state", "{p}: rejecting a modified {a} message ({what}) changed {d:?}");
                    }
                    self.w.bump("tamper_rejected");
                }
            }
            if !self.viols.is_empty() {
                return;
            }
        }
        // The same modified copies offered to members that already hold the authentic message: the receiver itself
        // after accepting it (re-delivery) and, for a proposal, its author and earlier receivers (it is in their cache).
        let mut holders: Vec<(String, mls_rs::Group<Cfg>)> = vec![];
        {
            let mut g1 = g0.clone();
            let o = orig.clone();
            if std::panic::catch_unwind(std::panic::AssertUnwindSafe(|| g1.process_incoming_message(o).is_ok())).unwrap_or(false) {
                holders.push((format!("{p} (after accepting the authentic copy)"), g1));
            }
        }
        if a == "DeliverProposal" {
            let r = self.w.prop_refs.get(u(args, "prop") as usize - 1).cloned().unwrap_or_default();
            for (q, party) in self.w.parties.iter() {
                if q == p || r.is_empty() { continue; }
                if let Some(g) = party.group.as_ref() {
                    if g.get_cached_proposals().iter().any(|c| c.proposal_ref().as_slice() == r.as_slice()) {
                        holders.push((format!("{q} (holds the proposal already)"), g.clone()));
                        if holders.len() >= 3 { break; }
                    }
                }
            }
        }
        for (who, gh) in holders.iter() {
            for (what, b) in variants.iter() {
                let m = match MlsMessage::from_bytes(b) { Ok(m) => m, Err(_) => continue };
                if m.to_bytes().map(|x| x == bytes).unwrap_or(false) { continue; }
                let mut g = gh.clone();
                match std::panic::catch_unwind(std::panic::AssertUnwindSafe(|| g.process_incoming_message(m))) {
                    Err(_) => viol!(self, ["C03"], "tamper-panic", "{who}: processing a modified {a} message ({what}) panicked"),
                    Ok(Ok(res)) => viol!(self, ["C03"], "tamper-accepted", "{who}: a modified copy of an authentic message it already holds ({a}, {what}) was accepted: {:?}", format!("{res:?}").chars().take(120).collect::<String>()),
                    Ok(Err(_)) => self.w.bump("tamper_rejected_by_holder"),
                }
                if !self.viols.is_empty() { return; }
            }
        }
        // insider forgeries of this commit (structurally invalid, consistently signed by its author)
        if a == "DeliverCommit" {
            let forged = self.w.commits[u(args, "commit") as usize - 1].forged.clone();
            for (kind, fm) in forged {
                let mut g = g0.clone();
                let r = std::panic::catch_unwind(std::panic::AssertUnwindSafe(|| g.process_incoming_message(fm)));
                match r {
                    Err(_) => viol!(self, ["C03"], "insider-panic", "{p}: processing a commit whose author made it structurally invalid ({kind}) panicked"),
                    // a member that the commit removes only learns of its removal: it neither validates nor applies the path
                    Ok(Ok(ReceivedMessage::Commit(d))) if matches!(d.effect, CommitEffect::Removed { .. }) => self.w.bump("insider_removal_notice"),
                    Ok(Ok(res)) => viol!(self, ["C03"], "insider-accepted", "{p}: a structurally invalid commit signed by its author ({kind}) was accepted: {}", format!("{res:?}").chars().take(100).collect::<String>()),
                    Ok(Err(_)) => {
                        let after = g.verif_state();
                        let gs = self.w.parties[p].gs.clone();
                        let gid = self.w.gid.clone();
                        let cached = after.pending_updates_only_cached(&before, |id| gs.peek_epoch(&gid, id));
                        let d: Vec<_> = before.diff(&after).into_iter().filter(|c| !(*c == "repo_updates" && cached)).collect();
                        if !d.is_empty() {
                            viol!(self, ["C04", "C03"], "insider-changed-state", "{p}: rejecting a structurally invalid commit of its author ({kind}) changed {d:?}");
                        }
                        self.w.bump(&format!("insider_rejected:{kind}"));
                    }
                }
                if !self.viols.is_empty() { return; }
            }
        }
        self.w.bump(&format!("tamper_probes:{a}"));
    }

    /// C03: modified copies of a Welcome (and of the ratchet tree given out of band) offered to the joiner before
    /// the authentic one.  Joining is a pure function of Welcome, tree and the joiner's key package, so a modified
    /// copy is either rejected or -- when the modified bytes belong to another joiner's part of the Welcome --
    /// yields exactly the group the authentic Welcome yields.
    fn tamper_welcome(&mut self, p: &String, args: &Value) {
        use rand::{Rng, SeedableRng};
        let n = u(args, "commit") as usize;
        let kpi = u(args, "kp") as usize;
        let my_ref = self.w.kps[kpi - 1].store_id.clone();
        let ce = &self.w.commits[n - 1];
        let wmsg = match ce.welcomes.iter().find(|w| my_ref.is_empty() || w.welcome_key_package_references().iter().any(|r| r.to_vec() == my_ref)) {
            Some(w) => w.clone(),
            None => return,
        };
        let tree_bytes: Option<Vec<u8>> = if self.w.opts.ratchet_tree_ext { None } else { ce.tree.clone() };
        let client = self.w.parties[p].client.clone();
        let mk_tree = |b: &Option<Vec<u8>>| b.as_ref().map(|b| mls_rs::group::ExportedTree::from_bytes(b));
        let reference = match client.join_group(mk_tree(&tree_bytes).map(|t| t.unwrap()), &wmsg, None) {
            Ok((g, _)) => g.verif_state(),
            Err(_) => return, // the authentic join fails (model-given verdict, checked by the step itself)
        };
        let wbytes = wmsg.to_bytes().unwrap();
        let mut rng = rand::rngs::StdRng::seed_from_u64(self.tamper_seed ^ (self.step as u64) << 20 ^ wbytes.len() as u64);
        let mut variants: Vec<(String, Vec<u8>, Option<Vec<u8>>)> = vec![];
        let nflips = if self.tamper_exhaustive { wbytes.len() * 8 } else { self.tamper * 3 };
        for k in 0..nflips {
            let i = if self.tamper_exhaustive { k } else { rng.random_range(0..wbytes.len() * 8) };
            let mut b = wbytes.clone();
            b[i / 8] ^= 1 << (i % 8);
            variants.push((format!("welcome: flip bit {i}"), b, tree_bytes.clone()));
        }
        for _ in 0..self.tamper.max(2) {
            let t = rng.random_range(0..wbytes.len());
            variants.push((format!("welcome: truncate to {t}"), wbytes[..t].to_vec(), tree_bytes.clone()));
        }
        // a Welcome of another commit (cross-epoch replay of the joiner's invitation)
        for (i, o) in self.w.commits.iter().enumerate() {
            if i + 1 == n { continue; }
            for w in o.welcomes.iter().take(1) {
                if let Ok(ob) = w.to_bytes() {
                    let len = ob.len().min(wbytes.len());
                    if len > 16 {
                        let l = rng.random_range(1..=len.min(96));
                        let at = rng.random_range(0..=len - l);
                        let mut b = wbytes.clone();
                        b[at..at + l].copy_from_slice(&ob[at..at + l]);
                        if b != wbytes { variants.push((format!("welcome: splice {l} bytes at {at} from the Welcome of commit {}", i + 1), b, tree_bytes.clone())); }
                    }
                }
            }
        }
        if let Some(tb) = tree_bytes.as_ref() {
            for _ in 0..self.tamper * 2 {
                let i = rng.random_range(0..tb.len() * 8);
                let mut b = tb.clone();
                b[i / 8] ^= 1 << (i % 8);
                variants.push((format!("tree: flip bit {i}"), wbytes.clone(), Some(b)));
            }
            let t = rng.random_range(0..tb.len());
            variants.push((format!("tree: truncate to {t}"), wbytes.clone(), Some(tb[..t].to_vec())));
        }
        // C07: the authentic Welcome with a well-formed ratchet tree of another epoch (given out of band)
        if tree_bytes.is_some() {
            let others: Vec<(usize, Vec<u8>)> = self.w.commits.iter().enumerate().filter(|(i, o)| i + 1 != n && o.tree.is_some() && o.tree != tree_bytes).map(|(i, o)| (i + 1, o.tree.clone().unwrap())).collect();
            for (i, t) in others.into_iter().rev().take(2) {
                variants.push((format!("tree: the exported tree of commit {i}"), wbytes.clone(), Some(t)));
                self.w.bump("tamper_other_epoch_tree");
            }
        }
        // the authentic tree with blank nodes appended (a well-formed vector that ends in blanks)
        if let Some(tb) = tree_bytes.as_ref() {
            if let Some(padded) = crate::codec::append_blank_nodes(tb, 2) {
                variants.push(("tree: two blank nodes appended".to_string(), wbytes.clone(), Some(padded)));
            }
        }
        for (what, wb, tb) in variants {
            let m = match MlsMessage::from_bytes(&wb) {
                Ok(m) => m,
                Err(_) => { self.w.bump("tamper_rejected_by_decoder"); continue; }
            };
            let tree = match mk_tree(&tb) {
                Some(Err(_)) => { self.w.bump("tamper_rejected_by_decoder"); continue; }
                Some(Ok(t)) => Some(t),
                None => None,
            };
            let r = std::panic::catch_unwind(std::panic::AssertUnwindSafe(|| client.join_group(tree, &m, None)));
            match r {
                Err(_) => viol!(self, ["C03"], "tamper-panic", "{p}: joining with a modified Welcome / tree ({what}) panicked"),
                Ok(Err(_)) => self.w.bump("tamper_rejected"),
                Ok(Ok((g, _))) => {
                    let d = reference.diff(&g.verif_state());
                    if what.starts_with("tree:") {
                        // the ratchet tree given out of band has no part addressed to somebody else: every accepted
                        // modification is a violation, whatever group it yields
                        viol!(self, ["C03", "C07"], "tamper-accepted", "{p}: a modified ratchet tree ({what}) was accepted with the authentic Welcome (group differs in {d:?})");
                    } else if d.is_empty() {
                        self.w.bump("tamper_welcome_unaffected");
                        if wmsg.welcome_key_package_references().len() == 1 {
                            self.w.bump("tamper_welcome_unaffected_single");
                            if std::env::var("VERIF_DEBUG").is_ok() { eprintln!("single-entry welcome accepted: {what} of {}", wbytes.len()); }
                        }
                    } else {
                        viol!(self, ["C03", "C07"], "tamper-accepted", "{p}: a modified Welcome / ratchet tree ({what}) was accepted and yields a group that differs in {d:?}");
                    }
                }
            }
            if !self.viols.is_empty() { return; }
        }
        self.w.bump("tamper_probes:JoinWelcome");
    }

    /// C05: no two AEAD encryptions of the whole run use the same (key, nonce); a sender's handshake and
    /// application keys are disjoint (follows from uniqueness of keys across all seals).
    pub fn nonce_monitor(&mut self) {
        let evs = self.w.rec.take();
        let mut seen: std::collections::HashMap<(Vec<u8>, Vec<u8>), String> = std::collections::HashMap::new();
        let mut detail: std::collections::HashMap<(Vec<u8>, Vec<u8>), (Vec<u8>, usize)> = std::collections::HashMap::new();
        let mut keys: std::collections::HashMap<Vec<u8>, Vec<u8>> = std::collections::HashMap::new();
        let mut n = 0u64;
        for (who, ev) in evs.iter() {
            if let Ev::AeadSeal { key, nonce, aad, pt_len } = ev {
                // message content and sender data are sealed with framing AAD; the Welcome's GroupInfo is
                // sealed without AAD (two byte-identical commits legitimately produce the same Welcome)
                if aad.is_empty() {
                    continue;
                }
                n += 1;
                if let Some(prev) = seen.insert((key.clone(), nonce.clone()), who.clone()) {
                    let d = detail.get(&(key.clone(), nonce.clone())).cloned().unwrap_or_default();
                    viol!(self, ["C05"], "nonce-reuse", "AEAD key and nonce used twice (by {prev} and {who}); first aad={} len={}, second aad={} len={}", hex::encode(&d.0[..d.0.len().min(24)]), d.1, hex::encode(&aad[..aad.len().min(24)]), pt_len);
                }
                detail.insert((key.clone(), nonce.clone()), (aad.clone(), *pt_len));
                keys.entry(key.clone()).or_insert_with(|| nonce.clone());
            }
        }
        *self.w.stats.entry("aead_seals_monitored".into()).or_insert(0) += n;
    }

    /// C02: retained groups of removed members must reject all traffic of later epochs.
    pub fn feed_zombies(&mut self) {
        let names: Vec<String> = self.w.parties.keys().cloned().collect();
        for n in names {
            let zs = std::mem::take(&mut self.w.parties.get_mut(&n).unwrap().zombies);
            for mut z in zs {
                let ze = z.current_epoch();
                let auth = z.epoch_authenticator().map(|a| a.as_bytes().to_vec()).unwrap_or_default();
                let mut msgs: Vec<(String, MlsMessage)> = vec![];
                for c in self.w.commits.iter() {
                    if c.base_epoch > ze { msgs.push((format!("commit@{}", c.base_epoch), c.msg.clone())); }
                }
                for (i, m) in self.w.props.iter().enumerate() {
                    if m.epoch().map(|e| e > ze).unwrap_or(false) { msgs.push((format!("proposal#{}", i + 1), m.clone())); }
                }
                for (what, m) in msgs {
                    let before = z.verif_state();
                    match z.process_incoming_message(m) {
                        Ok(r) => viol!(self, ["C02"], "zombie-accepted", "removed member {n} (epoch {ze}) accepted {what}: {r:?}"),
                        Err(_) => {
                            if !before.diff(&z.verif_state()).is_empty() {
                                viol!(self, ["C02", "C04"], "zombie-changed", "removed member {n} changed state while rejecting {what}");
                            }
                        }
                    }
                    self.w.bump("zombie_feeds");
                }
                if z.current_epoch() != ze || z.epoch_authenticator().map(|a| a.as_bytes().to_vec()).unwrap_or_default() != auth {
                    viol!(self, ["C02"], "zombie-advanced", "removed member {n} advanced beyond epoch {ze}");
                }
            }
        }
    }
}

thread_local! {
    /// the ExternalSenders extension every group context of the running behaviour carries (if it uses an external sender)
    pub static EXT_SENDERS: std::cell::RefCell<Option<mls_rs::extension::built_in::ExternalSendersExt>> = std::cell::RefCell::new(None);
}
pub static FAULTS_WRITE_ONLY: std::sync::atomic::AtomicBool = std::sync::atomic::AtomicBool::new(false);
pub const CUSTOM_PROPOSAL: u16 = 0xF0F1;
pub const GCE_EXT: mls_rs::extension::ExtensionType = mls_rs::extension::ExtensionType::new(0xF0F0);

/// CommitBuilder calls for the by-value proposals of a model commit
pub fn build_commit(g: &mut mls_rs::Group<Cfg>, byval: &[Value], kps: Vec<Option<MlsMessage>>, suite: mls_rs::CipherSuite, detached: bool, commit_ad: Vec<u8>,
    new_identity: Option<(mls_rs_core::crypto::SignatureSecretKey, mls_rs::identity::SigningIdentity)>)
    -> Result<(mls_rs::group::CommitOutput, Option<mls_rs::group::CommitSecrets>), mls_rs::error::MlsError> {
    let mut b = g.commit_builder().authenticated_data(commit_ad);
    if let Some((sk, id)) = new_identity { b = b.set_new_signing_identity(sk, id); }
    for (it, kp) in byval.iter().zip(kps.into_iter()) {
        b = match s(it, "kind") {
            "psk" => b.add_external_psk(mls_rs::psk::ExternalPskId::new(s(it, "id").as_bytes().to_vec()))?,
            "rpsk" => b.add_resumption_psk(u(it, "epoch"))?,
            "gce" => b.set_group_context_ext(gce_list(u(it, "ver")))?,
            "custom" => b.custom_proposal(custom_proposal(u(it, "ver"))),
            "reinit" => b.reinit(Some(b"verif-group-next".to_vec()), mls_rs::ProtocolVersion::MLS_10, suite, Default::default())?,
            "add" => b.add_member(kp.unwrap())?,
            "rem" => b.remove_member(u(it, "target") as u32).map_err(|e| match e {
                mls_rs::error::MlsError::ExpectedNode | mls_rs::error::MlsError::InvalidNodeIndex(_) => mls_rs::error::MlsError::RemovingNonExistingMember,
                e => e,
            })?,
            k => panic!("by-value kind {k}"),
        };
    }
    if detached { b.build_detached().map(|(o, s)| (o, Some(s))) } else { b.build().map(|o| (o, None)) }
}

/// An application-defined proposal of the type every harness client supports (no effect, no path required).
pub fn custom_proposal(ver: u64) -> mls_rs::group::proposal::CustomProposal {
    mls_rs::group::proposal::CustomProposal::new(mls_rs::group::proposal::ProposalType::new(CUSTOM_PROPOSAL), (ver as u32).to_be_bytes().to_vec())
}

pub fn gce_list(ver: u64) -> mls_rs::ExtensionList {
    let mut l = mls_rs::ExtensionList::new();
    l.set(mls_rs::Extension::new(GCE_EXT, (ver as u16).to_be_bytes().to_vec()));
    EXT_SENDERS.with(|e| { if let Some(x) = e.borrow().as_ref() { l.set_from(x.clone()).expect("external senders"); } });
    // ver = version + 1000 * code: code bit 0 / 1 = the group requires extension type X / Y
    let code = ver / 1000;
    if code > 0 {
        let mut req = vec![];
        if code % 2 == 1 { req.push(mls_rs::extension::ExtensionType::new(0xF0F2)); }
        if code >= 2 { req.push(mls_rs::extension::ExtensionType::new(0xF0F3)); }
        l.set_from(mls_rs::extension::built_in::RequiredCapabilitiesExt::new(req, vec![], vec![])).expect("required capabilities");
    }
    l
}

fn find(h: &[u8], n: &[u8]) -> bool {
    h.windows(n.len()).any(|w| w == n)
}

/// Run one behaviour; stops at the first step with violations.
pub fn run_behaviour(b: &Value, opts: Opts, deep: bool, faults: bool, tamper: (usize, bool, u64)) -> Outcome {
    let cfg = b.get("cfg").cloned().unwrap_or(json!({}));
    let mut names: Vec<String> = cfg.get("parties").and_then(|p| p.as_array()).map(|a| a.iter().map(|x| x.as_str().unwrap().to_string()).collect()).unwrap_or_default();
    names.sort();
    let creator = s(&cfg, "creator").to_string();
    let mut opts = opts;
    opts.path_required = cfg.get("pathReq").and_then(|x| x.as_bool()).unwrap_or(false);
    opts.encrypt_controls = cfg.get("enc").and_then(|x| x.as_bool()).unwrap_or(false);
    opts.ext_sender = cfg.get("features").and_then(|f| f.as_array()).map(|f| f.iter().any(|x| x == "extsender")).unwrap_or(false);
    let list = |k: &str| cfg.get(k).and_then(|x| x.as_array()).map(|a| a.iter().filter_map(|n| n.as_str().map(|s| s.to_string())).collect::<Vec<_>>());
    // capability lists only matter to behaviours of the "caps" feature (a GCE code > 0 occurs); otherwise everybody supports X and Y
    let uses_caps = b.get("steps").and_then(|s| s.as_array()).map(|a| a.iter().any(|st| {
        let ar = &st["args"];
        ar.get("ver").and_then(|v| v.as_u64()).unwrap_or(0) >= 1000
            || ar.get("byval").and_then(|x| x.as_array()).map(|x| x.iter().any(|it| it.get("ver").and_then(|v| v.as_u64()).unwrap_or(0) >= 1000)).unwrap_or(false)
    })).unwrap_or(false);
    if uses_caps { opts.cap_x = list("capX"); opts.cap_y = list("capY"); }
    let w = match World::new(opts, &names, &creator) {
        Ok(w) => w,
        Err(e) => panic!("world: {e}"),
    };
    // the application's PSK stores as the behaviour fixes them (C18)
    if let Some(ps) = cfg.get("psk").and_then(|p| p.as_object()) {
        for (party, ids) in ps {
            if let (Some(p), Some(ids)) = (w.parties.get(party), ids.as_object()) {
                for (id, val) in ids {
                    let v = val.as_str().unwrap_or("none");
                    if v != "none" {
                        p.psk.put(id.as_bytes(), format!("psk-value-{v}").as_bytes());
                    }
                }
            }
        }
    }
    let mut r = Replayer::new(w, deep);
    r.faults = faults;
    r.tamper = tamper.0;
    r.tamper_exhaustive = tamper.1;
    r.tamper_seed = tamper.2;
    r.jitter = cfg.get("jit").and_then(|x| x.as_u64()).unwrap_or(crate::observer::NO_JITTER);
    r.new_identity_commits = cfg.get("features").and_then(|f| f.as_array()).map(|f| f.iter().any(|x| x == "newid")).unwrap_or(false);
    r.w.rec.set(true, false);
    let steps = b.get("steps").and_then(|x| x.as_array()).cloned().unwrap_or_default();
    let mut run = 0;
    for (i, st) in steps.iter().enumerate() {
        r.step = i;
        let res = std::panic::catch_unwind(std::panic::AssertUnwindSafe(|| r.run_step(st)));
        if let Err(e) = res {
            let msg = e.downcast_ref::<String>().cloned().or_else(|| e.downcast_ref::<&str>().map(|s| s.to_string())).unwrap_or_default();
            r.viols.push(Viol { props: vec!["C03", "C01"], kind: "panic".into(), what: format!("panic at step {i} ({}): {msg}", s(st, "a")), step: i });
        }
        run = i + 1;
        if !r.viols.is_empty() {
            break;
        }
    }
    if r.viols.is_empty() {
        r.step = steps.len();
        r.feed_zombies();
        r.nonce_monitor();
    }
    Outcome { steps_run: run, viols: r.viols.clone(), stats: r.w.stats.clone(), states: r.states.clone() }
}
