//! C13: record the derivation DAG (every kdf_extract / kdf_expand / hash / mac call of the
//! provider while the library operates) and emit, for every API-visible value, its provenance
//! tree.  The harness knows nothing about RFC 9420 formulas: it only follows "which recorded
//! call produced these bytes" pointers to a fixed depth.  KsTrace.tla matches the trees against
//! the RFC derivation graph of KeySchedule.tla.
use crate::crypto::{Backend, DynCrypto, Ev, Recorder};
use crate::world::*;
use mls_rs::group::ReceivedMessage;
use mls_rs::{CipherSuiteProvider, CryptoProvider};
use mls_rs_codec::MlsEncode;
use rand::{rngs::StdRng, Rng, SeedableRng};
use serde_json::{json, Value};
use std::collections::HashMap;
use std::io::Write;

#[derive(Default)]
struct Intern {
    ids: HashMap<Vec<u8>, u32>,
}
impl Intern {
    fn id(&mut self, b: &[u8]) -> u32 {
        let n = self.ids.len() as u32 + 1;
        *self.ids.entry(b.to_vec()).or_insert(n)
    }
}

#[derive(Clone, Debug)]
enum Fact {
    Extract { salt: u32, ikm: u32 },
    Expand { prk: u32, label: String, ctx: u32, ctx_len: usize, lenfield: usize, len: usize, ctx_bytes: Vec<u8>, ctx_head: u32 },
    Hash { len: usize, pre: u32, suf: u32, whole: u32 },
    Mac { key: u32, data: u32 },
}

/// RFC 9420 2.1.2 variable-length header
fn read_varint(b: &[u8]) -> Option<(usize, usize)> {
    let f = *b.first()?;
    match f >> 6 {
        0 => Some(((f & 0x3f) as usize, 1)),
        1 => Some(((((f & 0x3f) as usize) << 8) | *b.get(1)? as usize, 2)),
        2 => Some(((((f & 0x3f) as usize) << 24) | ((*b.get(1)? as usize) << 16) | ((*b.get(2)? as usize) << 8) | *b.get(3)? as usize, 4)),
        _ => None,
    }
}
fn vec_enc(b: &[u8]) -> Vec<u8> {
    let l = b.len();
    let mut o = vec![];
    if l < 64 {
        o.push(l as u8);
    } else if l < 16384 {
        o.extend_from_slice(&((l as u16) | 0x4000).to_be_bytes());
    } else {
        o.extend_from_slice(&((l as u32) | 0x8000_0000).to_be_bytes());
    }
    o.extend_from_slice(b);
    o
}

/// The PreSharedKeyID encodings of the PSK proposals a commit carries by value, in wire order (None if the message
/// is not a PublicMessage commit, or lists a proposal by reference or of a type whose length is not known here).
pub fn commit_psk_ids(msg: &[u8]) -> Option<Vec<Vec<u8>>> {
    let mut p = 0usize;
    let take = |p: &mut usize, n: usize| -> Option<&[u8]> { let s = msg.get(*p..*p + n)?; *p += n; Some(s) };
    let vec = |p: &mut usize| -> Option<(usize, usize)> { let (l, n) = read_varint(msg.get(*p..)?)?; *p += n; let st = *p; *p += l; if *p > msg.len() { return None; } Some((st, l)) };
    if take(&mut p, 2)? != [0, 1] { return None; }           // version mls10
    if take(&mut p, 2)? != [0, 1] { return None; }           // wire format: PublicMessage
    vec(&mut p)?;                                             // group id
    take(&mut p, 8)?;                                         // epoch
    match take(&mut p, 1)?[0] { 1 => { take(&mut p, 4)?; } 4 => {} _ => return None } // sender: member / new_member_commit
    vec(&mut p)?;                                             // authenticated data
    if take(&mut p, 1)?[0] != 3 { return None; }              // content type: commit
    let (st, l) = vec(&mut p)?;                               // proposals<V>
    let mut q = st;
    let end = st + l;
    let mut ids = vec![];
    while q < end {
        let kind = *msg.get(q)?; q += 1;
        if kind != 1 { return None; }                         // a reference: the PSK order is not visible here
        let ty = u16::from_be_bytes([*msg.get(q)?, *msg.get(q + 1)?]); q += 2;
        if ty != 4 { return None; }                           // only commits made of PSK proposals are decoded
        let start = q;
        let pt = *msg.get(q)?; q += 1;
        match pt {
            1 => { let (n, h) = read_varint(msg.get(q..)?)?; q += h + n; }
            2 => { q += 1; let (n, h) = read_varint(msg.get(q..)?)?; q += h + n; q += 8; }
            _ => return None,
        }
        let (n, h) = read_varint(msg.get(q..)?)?; q += h + n;  // nonce
        ids.push(msg.get(start..q)?.to_vec());
    }
    Some(ids)
}

/// KDFLabel { uint16 length; opaque label<V>; opaque context<V> } -> (length, label, context)
fn parse_kdf_label(info: &[u8]) -> Option<(usize, Vec<u8>, Vec<u8>)> {
    if info.len() < 2 {
        return None;
    }
    let l = u16::from_be_bytes([info[0], info[1]]) as usize;
    let (ll, n1) = read_varint(&info[2..])?;
    let ls = 2 + n1;
    let label = info.get(ls..ls + ll)?.to_vec();
    let (cl, n2) = read_varint(info.get(ls + ll..)?)?;
    let cs = ls + ll + n2;
    let ctx = info.get(cs..cs + cl)?.to_vec();
    if cs + cl != info.len() {
        return None;
    }
    Some((l, label, ctx))
}

pub struct KsDump {
    intern: Intern,
    facts: HashMap<u32, Vec<Fact>>, // producer facts by output id
    nh: usize,
    pub nfacts: usize,
    vec_of: HashMap<u32, u32>, // id of vec-encoding(x) -> id of x, for MAC outputs
    suite: u16,
    backend: Backend,
    pub xchecked: u64,
    pub mismatches: Vec<String>,
}

/// Byte-level independence: every recorded deterministic primitive call is re-evaluated with the
/// other shipped providers that support the suite and must give the same bytes.
pub fn cross_check(evs: &[(String, Ev)], suite: u16, used: Backend, mism: &mut Vec<String>) -> u64 {
    let others: Vec<crate::crypto::DynSuite> = Backend::all()
        .iter()
        .filter(|b| **b != used && b.supports(suite.into()))
        .map(|b| DynCrypto::new(*b, "xcheck", Recorder::new()).cipher_suite_provider(suite.into()).unwrap())
        .collect();
    let mut n = 0;
    for (_, e) in evs {
        for cs in &others {
            let ok = match e {
                Ev::Extract { salt, ikm, out } => cs.kdf_extract(salt, ikm).map(|o| o.as_slice() == out.as_slice()).unwrap_or(false),
                Ev::Expand { prk, info, len, out } => cs.kdf_expand(prk, info, *len).map(|o| o.as_slice() == out.as_slice()).unwrap_or(false),
                Ev::Hash { data, out } => cs.hash(data).map(|o| &o == out).unwrap_or(false),
                Ev::Mac { key, data, out } => cs.mac(key, data).map(|o| &o == out).unwrap_or(false),
                _ => continue,
            };
            n += 1;
            if !ok && mism.len() < 5 {
                mism.push(format!("{:?}", e).chars().take(160).collect());
            }
        }
    }
    n
}

impl KsDump {
    /// claims for *calls*: the key of every MAC and AEAD seal and the input of every KEM key derivation, with
    /// the recorded calls that produced it (at most `cap` of each kind per scenario)
    fn call_claims(&self, evs: &[(String, Ev)], rows: &mut Vec<Value>, counts: &mut HashMap<&'static str, usize>, cap: usize) {
        for (who, e) in evs {
            let (kind, row) = match e {
                Ev::Mac { key, .. } => ("call-mac", self.intern.ids.get(key).map(|k| json!({"k": "call-mac", "party": who, "key": self.prov(*k, 5)}))),
                Ev::KemDerive { ikm, .. } => ("call-kem", self.intern.ids.get(ikm).map(|k| json!({"k": "call-kem", "party": who, "ikm": self.prov(*k, 8)}))),
                Ev::AeadSeal { key, nonce, .. } => ("call-seal", self.intern.ids.get(key).map(|k| {
                    // the nonce of a message is the derived nonce xor a 4-byte reuse guard: look it up by its tail
                    let np = self.intern.ids.iter().find(|(b, id)| b.len() == nonce.len() && b.len() > 4 && b[4..] == nonce[4..] && self.facts.contains_key(id))
                        .map(|(_, id)| self.prov(*id, 12)).unwrap_or(json!({"op": "none", "id": 0}));
                    json!({"k": "call-seal", "party": who, "key": self.prov(*k, 12), "nonce": np})
                })),
                _ => continue,
            };
            let c = counts.entry(kind).or_insert(0);
            if *c < cap {
                // a key that no recorded call produced (random, or received through HPKE) carries no information
                match row {
                    Some(r) => { rows.push(r); *c += 1; }
                    None => {}
                }
            }
        }
    }

    fn ingest(&mut self, evs: &[(String, Ev)]) {
        self.xchecked += cross_check(evs, self.suite, self.backend, &mut self.mismatches);
        for (_, e) in evs {
            match e {
                Ev::Extract { salt, ikm, out } => {
                    let f = Fact::Extract { salt: self.intern.id(salt), ikm: self.intern.id(ikm) };
                    let o = self.intern.id(out);
                    self.push(o, f);
                }
                Ev::Expand { prk, info, len, out } => {
                    let (lenfield, label, ctx) = match parse_kdf_label(info) {
                        Some((l, lab, c)) => (l, String::from_utf8_lossy(&lab).to_string(), c),
                        None => (usize::MAX, "?unparsed".to_string(), info.clone()),
                    };
                    // the context without its last four bytes (PSKLabel: the PreSharedKeyID in front of index and count)
                    let ctx_head = if ctx.len() > 4 { self.intern.id(&ctx[..ctx.len() - 4]) } else { 0 };
                    let f = Fact::Expand { prk: self.intern.id(prk), label, ctx: self.intern.id(&ctx), ctx_len: ctx.len(), lenfield, len: *len, ctx_bytes: if ctx.len() <= 8 { ctx.clone() } else { ctx[ctx.len() - 4..].to_vec() }, ctx_head };
                    let o = self.intern.id(out);
                    self.push(o, f);
                    // message nonces are xored with a 4-byte reuse guard: also remember the tail
                    if out.len() > 4 {
                        let t = self.intern.id(&out[4..]);
                        let _ = t;
                    }
                }
                Ev::Hash { data, out } => {
                    let nh = self.nh.min(data.len());
                    let f = Fact::Hash { len: data.len(), pre: self.intern.id(&data[..nh]), suf: self.intern.id(&data[nh..]), whole: self.intern.id(data) };
                    let o = self.intern.id(out);
                    self.push(o, f);
                }
                Ev::Mac { key, data, out } => {
                    let f = Fact::Mac { key: self.intern.id(key), data: self.intern.id(data) };
                    let o = self.intern.id(out);
                    self.push(o, f);
                    let v = vec_enc(out);
                    let vid = self.intern.id(&v);
                    self.vec_of.insert(vid, o);
                }
                _ => {}
            }
        }
    }
    fn push(&mut self, o: u32, f: Fact) {
        self.nfacts += 1;
        let v = self.facts.entry(o).or_default();
        let dup = v.iter().any(|g| format!("{g:?}") == format!("{f:?}"));
        if !dup {
            v.push(f);
        }
    }
    /// provenance tree of value `id` to depth `d` (no RFC knowledge: producer facts and their inputs)
    fn prov(&self, id: u32, d: usize) -> Value {
        let fs = match self.facts.get(&id) {
            Some(f) if d > 0 => f,
            Some(_) => return json!({"id": id, "op": "cut"}),
            None => return json!({"id": id, "op": "leaf"}),
        };
        // several different calls produced these bytes (only plausible for very short outputs, e.g. a
        // 1-byte export): the most recent one is the call the claim was made for
        match &fs[fs.len() - 1] {
            Fact::Extract { salt, ikm } => json!({"id": id, "op": "extract", "salt": self.prov(*salt, d - 1), "ikm": self.prov(*ikm, d - 1)}),
            Fact::Expand { prk, label, ctx, ctx_len, lenfield, len, ctx_bytes, ctx_head } => {
                let t = &ctx_bytes[ctx_bytes.len().saturating_sub(4)..];
                json!({"id": id, "op": "expand", "prk": self.prov(*prk, d - 1),
                "label": label, "ctx": ctx, "ctxLen": ctx_len, "lenField": lenfield, "len": len, "ctxHead": ctx_head,
                // decoded views of short contexts: ASCII string ("left"/"right"), uint32 (generation), last two uint16 (PSKLabel index, count)
                "ctxStr": if *ctx_len <= 8 && ctx_bytes.iter().all(|b| b.is_ascii_lowercase()) { String::from_utf8_lossy(ctx_bytes).to_string() } else { String::new() },
                "ctxU32": if *ctx_len == 4 { u32::from_be_bytes([t[0], t[1], t[2], t[3]]) as i64 } else { -1 },
                "ctxIdx": if t.len() == 4 { u16::from_be_bytes([t[0], t[1]]) as i64 } else { -1 },
                "ctxCnt": if t.len() == 4 { u16::from_be_bytes([t[2], t[3]]) as i64 } else { -1 }})
            }
            Fact::Hash { len, pre, suf, whole } => {
                // is the suffix the vector encoding of a recorded MAC output (interim transcript hash input)?
                let mac = self.vec_of.get(suf).map(|m| self.prov(*m, d.min(3))).unwrap_or(json!({"op": "none", "id": 0}));
                json!({"id": id, "op": "hash", "len": len, "pre": self.prov(*pre, d - 1), "suf": suf, "whole": whole, "sufMac": mac})
            }
            Fact::Mac { key, data } => json!({"id": id, "op": "mac", "key": self.prov(*key, d - 1), "data": data}),
        }
    }
}

pub fn dump(out: &str, seed: u64, scenarios: usize) -> Result<Value, String> {
    let mut f = std::io::BufWriter::new(std::fs::File::create(out).map_err(|e| e.to_string())?);
    let mut rng = StdRng::seed_from_u64(seed);
    let mut claims = 0u64;
    let mut facts = 0usize;
    let mut kinds: HashMap<String, u64> = HashMap::new();
    let mut samples = vec![];
    let mut suites = vec![];
    let mut xchecked = 0u64;
    let mut mismatches: Vec<String> = vec![];
    for sc in 0..scenarios {
        let backend = Backend::all()[rng.random_range(0..3)];
        let cands: Vec<u16> = (1u16..=7).filter(|s| backend.supports((*s).into())).collect();
        let suite = cands[rng.random_range(0..cands.len())];
        suites.push(format!("{}:{}", backend.name(), suite));
        let mut opts = Opts::default();
        opts.suite = suite;
        opts.backends = vec![backend];
        opts.path_required = rng.random_bool(0.5);
        opts.encrypt_controls = rng.random_bool(0.5);
        let n = rng.random_range(2..=5usize);
        let names: Vec<String> = (1..=n).map(|i| format!("p{i}")).collect();
        let mut w = World::new(opts, &names, "p1")?;
        for p in w.parties.values() {
            p.psk.put(b"k1", b"psk-value-one");
            p.psk.put(b"k2", b"another psk value, longer than a block of the hash function .................");
        }
        let cs = DynCrypto::new(backend, "probe", Recorder::new()).cipher_suite_provider(suite.into()).unwrap();
        let nh = cs.kdf_extract_size();
        let mut d = KsDump { intern: Intern::default(), facts: HashMap::new(), nh, nfacts: 0, vec_of: HashMap::new(), suite, backend, xchecked: 0, mismatches: vec![] };
        let zero = d.intern.id(&vec![0u8; nh]);
        let empty = d.intern.id(&[]);
        w.rec.set(true, true);
        let mut rows: Vec<Value> = vec![];
        let call_counts: std::cell::RefCell<HashMap<&'static str, usize>> = Default::default();
        let mut members: Vec<String> = vec!["p1".into()];
        let mut pending_joiners: Vec<String> = names[1..].to_vec();
        // claims for one member in its current epoch
        let mut claim_member = |w: &mut World, d: &mut KsDump, rows: &mut Vec<Value>, p: &str, rng: &mut StdRng| {
            let evs = w.rec.take();
            d.ingest(&evs);
            d.call_claims(&evs, rows, &mut *call_counts.borrow_mut(), 60);
            let g = w.parties[p].group.as_ref().unwrap().clone();
            let ctx_bytes = g.context().mls_encode_to_vec().unwrap();
            let ctx = d.intern.id(&ctx_bytes);
            let auth = g.epoch_authenticator().unwrap();
            let a = d.intern.id(auth.as_bytes());
            rows.push(json!({"k": "auth", "party": p, "epoch": g.current_epoch(), "ctx": ctx, "first": g.current_epoch() == 0, "prov": d.prov(a, 9)}));
            // exported secret for a random label / context / length
            let label: Vec<u8> = (0..rng.random_range(0..12usize)).map(|_| b"abcdefghijklmnopqrstuvwxyzABCXYZ0189 -_"[rng.random_range(0..39usize)]).collect();
            let ectx: Vec<u8> = (0..rng.random_range(0..70usize)).map(|_| rng.random::<u8>()).collect();
            let len = [1usize, 16, 32, 33, 64, 100][rng.random_range(0..6)];
            w.rec.take();
            let x = g.export_secret(&label, &ectx, len).unwrap();
            let evs = w.rec.take();
            d.ingest(&evs);
            let xid = d.intern.id(x.as_bytes());
            let hctx = cs_hash_id(d, &w.cs(p), &ectx);
            let lab = format!("MLS 1.0 {}", String::from_utf8_lossy(&label));
            rows.push(json!({"k": "export", "party": p, "epoch": g.current_epoch(), "ctx": ctx, "label": String::from_utf8_lossy(&label), "labelFull": lab,
                "labelAscii": label.iter().all(|b| b.is_ascii()), "hctx": hctx, "len": len, "prov": d.prov(xid, 11)}));
            // confirmed transcript hash of the context
            let cth = d.intern.id(&g.context().confirmed_transcript_hash);
            rows.push(json!({"k": "cth", "party": p, "epoch": g.current_epoch(), "prov": d.prov(cth, 4)}));
            // tree hash
            let th = d.intern.id(&g.context().tree_hash);
            rows.push(json!({"k": "treehash", "party": p, "epoch": g.current_epoch(), "known": d.facts.contains_key(&th)}));
        };
        claim_member(&mut w, &mut d, &mut rows, "p1", &mut rng);
        let steps = rng.random_range(4..9usize);
        // every fifth scenario runs with a group context of more than 2^14 bytes (a large extension set by the first
        // commit): the KDFLabel context then has a four-byte length header
        let big_ctx = sc % 5 == 2;
        for step_no in 0..steps {
            let committer = members[rng.random_range(0..members.len())].clone();
            let mut joiners = vec![];
            let res = {
                let mut kps = vec![];
                let kind = rng.random_range(0..7u32);
                if (kind == 0 || members.len() < 2) && !pending_joiners.is_empty() {
                    let k = rng.random_range(1..=pending_joiners.len().min(2));
                    for _ in 0..k {
                        let j = pending_joiners.remove(0);
                        let kp = w.parties[&j].client.generate_key_package_message(Default::default(), Default::default(), None).map_err(|e| format!("{e:?}"))?;
                        kps.push(kp);
                        joiners.push(j);
                    }
                }
                let g = w.parties.get_mut(&committer).unwrap().group.as_mut().unwrap();
                let g_epoch = g.current_epoch();
                let mut b = g.commit_builder();
                for kp in kps {
                    b = b.add_member(kp).map_err(|e| format!("{e:?}"))?;
                }
                if kind == 1 || kind == 2 {
                    b = b.add_external_psk(mls_rs::psk::ExternalPskId::new(b"k1".to_vec())).map_err(|e| format!("{e:?}"))?;
                }
                if kind == 2 {
                    b = b.add_external_psk(mls_rs::psk::ExternalPskId::new(b"k2".to_vec())).map_err(|e| format!("{e:?}"))?;
                }
                // mixed lists: an external and a resumption PSK in both orders (no joiners in these commits)
                if joiners.is_empty() && (kind == 5 || kind == 6) {
                    let e0 = g_epoch;
                    if kind == 5 { b = b.add_external_psk(mls_rs::psk::ExternalPskId::new(b"k1".to_vec())).map_err(|e| format!("{e:?}"))?; }
                    b = b.add_resumption_psk(e0).map_err(|e| format!("{e:?}"))?;
                    if kind == 6 { b = b.add_external_psk(mls_rs::psk::ExternalPskId::new(b"k2".to_vec())).map_err(|e| format!("{e:?}"))?; }
                }
                if big_ctx && step_no == 0 {
                    let mut l = mls_rs::ExtensionList::new();
                    l.set(mls_rs::Extension::new(crate::replay::GCE_EXT, (0..20_000u32).map(|i| (i % 251) as u8).collect()));
                    b = b.set_group_context_ext(l).map_err(|e| format!("{e:?}"))?;
                }
                b.build().map_err(|e| format!("commit: {e:?}"))?
            };
            w.parties.get_mut(&committer).unwrap().group.as_mut().unwrap().apply_pending_commit().map_err(|e| format!("{e:?}"))?;
            for m in members.clone() {
                if m != committer {
                    let g = w.parties.get_mut(&m).unwrap().group.as_mut().unwrap();
                    g.process_incoming_message(res.commit_message.clone()).map_err(|e| format!("process: {e:?}"))?;
                }
            }
            for j in joiners {
                let (g, _) = w.parties[&j].client.join_group(None, &res.welcome_messages[0], None).map_err(|e| format!("join: {e:?}"))?;
                w.parties.get_mut(&j).unwrap().group = Some(g);
                members.push(j);
            }
            let psk_ids = res.commit_message.to_bytes().ok().and_then(|b| commit_psk_ids(&b));
            for m in members.clone() {
                claim_member(&mut w, &mut d, &mut rows, &m, &mut rng);
                // C13 / C18: the PSK chain of the new epoch takes the PSKs in the order the commit lists them
                if let Some(ids) = psk_ids.as_ref() {
                    if !ids.is_empty() {
                        let g = w.parties[&m].group.as_ref().unwrap();
                        let a = d.intern.id(g.epoch_authenticator().unwrap().as_bytes());
                        let idl: Vec<u32> = ids.iter().map(|i| d.intern.id(i)).collect();
                        rows.push(json!({"k": "pskorder", "party": m, "epoch": g.current_epoch(), "psks": idl, "prov": d.prov(a, 9)}));
                    }
                }
            }
            // application messages: sender encrypts a burst, one receiver decrypts one of them
            if members.len() >= 2 {
                let s = members[rng.random_range(0..members.len())].clone();
                let r = members.iter().find(|m| **m != s).unwrap().clone();
                let burst = rng.random_range(1..4usize);
                let mut msgs = vec![];
                for i in 0..burst {
                    w.rec.take();
                    let g = w.parties.get_mut(&s).unwrap().group.as_mut().unwrap();
                    let leaf = g.current_member_index();
                    // the secret tree is built over the full (power of two) leaf count
                    let leaves = crate::oracles::leaf_count_of(g.export_tree().nodes().len());
                    let ctx = d.intern.id(&g.context().mls_encode_to_vec().unwrap());
                    let m = g.encrypt_application_message(format!("m{i}").as_bytes(), vec![]).map_err(|e| format!("{e:?}"))?;
                    let evs = w.rec.take();
                    d.ingest(&evs);
                    d.call_claims(&evs, &mut rows, &mut *call_counts.borrow_mut(), 60);
                    // the content encryption is the first AEAD seal with framing AAD
                    if let Some((key, nonce)) = evs.iter().find_map(|(_, e)| if let Ev::AeadSeal { key, nonce, aad, .. } = e { if !aad.is_empty() { Some((key.clone(), nonce.clone())) } else { None } } else { None }) {
                        let kid = d.intern.id(&key);
                        let nid = d.intern.id(&nonce[4..]);
                        rows.push(json!({"k": "msgkey", "party": s, "leaf": leaf, "leaves": leaves, "gen": w.stats.get(&format!("gen:{s}:{ctx}")).copied().unwrap_or(0), "ctx": ctx,
                            "key": d.prov(kid, 18), "nonceTail": nid, "nonceProv": nonce_prov(&d, &nonce)}));
                        *w.stats.entry(format!("gen:{s}:{ctx}")).or_insert(0) += 1;
                    }
                    msgs.push(m);
                }
                let pick = msgs[rng.random_range(0..msgs.len())].clone();
                let g = w.parties.get_mut(&r).unwrap().group.as_mut().unwrap();
                match g.process_incoming_message(pick) {
                    Ok(ReceivedMessage::ApplicationMessage(_)) => {}
                    other => return Err(format!("app message not decrypted: {other:?}")),
                }
                let evs = w.rec.take();
                d.ingest(&evs);
            }
        }
        facts += d.nfacts;
        xchecked += d.xchecked;
        mismatches.extend(d.mismatches.iter().cloned());
        writeln!(f, "{}", json!({"k": "meta", "scenario": sc, "suite": suite, "backend": backend.name(), "nh": nh, "nk": cs.aead_key_size(), "nn": cs.aead_nonce_size(), "zero": zero, "empty": empty})).map_err(|e| e.to_string())?;
        for r in rows {
            *kinds.entry(r["k"].as_str().unwrap().to_string()).or_insert(0) += 1;
            claims += 1;
            if samples.len() < 3 && r["k"] == "auth" && r["epoch"].as_u64().unwrap_or(0) == 2 {
                samples.push(r.clone());
            }
            writeln!(f, "{}", r).map_err(|e| e.to_string())?;
        }
    }
    Ok(json!({"claims": claims, "facts": facts, "kinds": kinds, "scenarios": scenarios, "suites": suites, "samples": samples,
             "cross_provider_recomputations": xchecked, "cross_provider_mismatches": mismatches}))
}

fn cs_hash_id(d: &mut KsDump, cs: &impl CipherSuiteProvider, data: &[u8]) -> u32 {
    let h = cs.hash(data).unwrap();
    d.intern.id(&h)
}

/// the nonce actually used is (derived nonce) xor (reuse guard in the first 4 bytes): find the derived nonce
/// among the recorded expand outputs by its tail
fn nonce_prov(d: &KsDump, nonce: &[u8]) -> Value {
    for (bytes, id) in d.intern.ids.iter() {
        if bytes.len() == nonce.len() && bytes[4..] == nonce[4..] && d.facts.contains_key(id) {
            return d.prov(*id, 18);
        }
    }
    json!({"op": "leaf", "id": 0})
}
