//! C06: "at every crash point" for the SQLite provider.  The specification's Write action is atomic; this test
//! checks the assumption on the implementation: a child process keeps changing epochs and writing the group to a
//! SQLite file, the parent kills it (SIGKILL) at a random moment, opens the file and loads the group.  What it
//! finds must be a state some completed write left: the group loads, the stored prior epochs are exactly the
//! last min(retention, epoch) epochs before the snapshot's epoch, and the loaded group can go on.
use crate::crypto::Backend;
use crate::world::*;
use rand::{Rng, SeedableRng};
use serde_json::{json, Value};

fn opts(retention: u64) -> Opts {
    let mut o = Opts::default();
    o.sqlite = true;
    o.retention = retention;
    o.backends = vec![Backend::Openssl];
    o
}

/// child: commit / apply / write in a loop until killed
pub fn child(db: &str, retention: u64) -> ! {
    let rec = crate::crypto::Recorder::new();
    let (client, _ctl, _gs, _kp, _psk, _id, _sk, _pk) = make_client("p1", Backend::Openssl, &opts(retention), &rec, Some(std::path::PathBuf::from(db)), None);
    let mut g = client.create_group_with_id(b"crash-group".to_vec(), Default::default(), Default::default(), None).expect("create");
    g.write_to_storage().expect("first write");
    println!("ready");
    loop {
        g.commit(vec![]).expect("commit");
        g.apply_pending_commit().expect("apply");
        // some application traffic so that snapshots differ in more than the epoch
        let _ = g.encrypt_application_message(b"x", vec![]);
        g.write_to_storage().expect("write");
    }
}

pub fn run(rounds: usize, seed: u64, exe: &str) -> Value {
    let mut rng = rand::rngs::StdRng::seed_from_u64(seed);
    let dir = std::path::PathBuf::from(format!("/verif/work/crash/{}-{}", std::process::id(), seed));
    std::fs::create_dir_all(&dir).ok();
    let mut viols: Vec<Value> = vec![];
    let mut epochs_seen = vec![];
    let mut loaded = 0;
    for r in 0..rounds {
        let retention = [1u64, 2, 3][r % 3];
        let db = dir.join(format!("r{r}.db"));
        let _ = std::fs::remove_file(&db);
        let mut ch = std::process::Command::new(exe).args(["crash-child", "--db", db.to_str().unwrap(), "--retention", &retention.to_string()])
            .stdout(std::process::Stdio::piped()).stderr(std::process::Stdio::null()).spawn().expect("spawn");
        // wait until the first write is done, then let it run for a random time and kill it
        {
            use std::io::BufRead;
            let mut line = String::new();
            let mut rd = std::io::BufReader::new(ch.stdout.take().unwrap());
            let _ = rd.read_line(&mut line);
        }
        std::thread::sleep(std::time::Duration::from_micros(rng.random_range(5_000..400_000)));
        let _ = ch.kill();
        let _ = ch.wait();
        // what is in the file now?
        let rec = crate::crypto::Recorder::new();
        let (client, _ctl, gs, ..) = make_client("p1", Backend::Openssl, &opts(retention), &rec, Some(db.clone()), None);
        let gid = b"crash-group".to_vec();
        match client.load_group(&gid) {
            Err(e) => viols.push(json!({"round": r, "what": format!("the group does not load after a kill during writes: {e:?}")})),
            Ok(mut g) => {
                loaded += 1;
                let e = g.current_epoch();
                epochs_seen.push(e);
                let stored = gs.stored_epochs(&gid);
                let want: Vec<u64> = (e.saturating_sub(retention)..e).collect();
                if stored != want {
                    viols.push(json!({"round": r, "what": format!("after a kill the snapshot is at epoch {e} (retention {retention}) but the stored prior epochs are {stored:?}, expected {want:?}")}));
                }
                // the loaded group is usable
                let ok = g.commit(vec![]).and_then(|_| g.apply_pending_commit()).and_then(|_| g.write_to_storage());
                if let Err(e) = ok {
                    viols.push(json!({"round": r, "what": format!("the group loaded after a kill cannot continue: {e:?}")}));
                }
            }
        }
        let _ = std::fs::remove_file(&db);
    }
    let _ = std::fs::remove_dir_all(&dir);
    json!({"rounds": rounds, "loaded": loaded, "max_epoch_reached": epochs_seen.iter().max(), "distinct_epochs": epochs_seen.iter().collect::<std::collections::BTreeSet<_>>().len(), "violations": viols})
}
