"""C06: a group restored from storage is the same group, at every crash point."""
import os, json
import vlib
from corecheck import run_core
def run(ctx):
    res = run_core(ctx, "C06", sim_cfgs=["SIM_storage", "SIM_late"], mc_quick="MC_storage", mc_thorough="MC_storage_deep",
                    harness_flags=[["--single-backend"], ["--single-backend", "--sqlite"]],
                    need_stats=("Write:ok", "Load:ok", "load_equals_written_checks", "stored_update_checks"),
                    invariants_note="ProvidersAgree (in-memory vs SQLite trimming rules), RetentionExact, Load = last written snapshot (MlsGroup.tla Write/Load); concrete: order-insensitive full-state equality (verif_state hook) between the group at write_to_storage and the group returned by load_group, after which the reloaded group continues the behaviour in lockstep with the model; stored epoch ids compared with the model after every step; every behaviour runs on the in-memory and on the SQLite provider; Write is one atomic action of the specification: for the SQLite provider that assumption is tested by killing (SIGKILL) a process that writes epoch after epoch at a random moment and checking that what is found in the file is a state a completed write left (loads, stored prior epochs = the last min(retention, epoch) epochs, the loaded group can continue)",
                    extra_rule="Each behaviour is replayed twice: in-memory providers and SQLite (file-backed) providers.")
    if not ctx.get("replay"):
        rounds = 24 if ctx["tier"] == "quick" else 300
        rc, out, err = vlib.harness(["crash", "--rounds", rounds, "--seed", ctx["seed"]], timeout=3000)
        c = vlib.last_json(out)
        if c["loaded"] + len(c["violations"]) < rounds or c["distinct_epochs"] < 3:
            raise vlib.ToolError(f"vacuous crash test: {c}")
        for v in c["violations"][:5]:
            rp = vlib.replay_path("C06", f"crash-round{v['round']}")
            json.dump(v, open(rp, "w"))
            res["violations"].append({"key": "crash", "what": "SQLite provider, process killed during writes: " + v["what"], "replay": rp})
        res["coverage"]["crash_test"] = {k: c[k] for k in ("rounds", "loaded", "max_epoch_reached", "distinct_epochs")}
    return res
