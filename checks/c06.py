"""C06: a group restored from storage is the same group, at every crash point."""
from corecheck import run_core
def run(ctx):
    return run_core(ctx, "C06", sim_cfg="SIM_storage", mc_quick="MC_storage", mc_thorough="MC_storage_deep",
                    harness_flags=[["--single-backend"], ["--single-backend", "--sqlite"]],
                    need_stats=("Write:ok", "Load:ok", "load_equals_written_checks"),
                    invariants_note="ProvidersAgree (in-memory vs SQLite trimming rules), RetentionExact, Load = last written snapshot (MlsGroup.tla Write/Load); concrete: order-insensitive full-state equality (verif_state hook) between the group at write_to_storage and the group returned by load_group, after which the reloaded group continues the behaviour in lockstep with the model; stored epoch ids compared with the model after every step; every behaviour runs on the in-memory and on the SQLite provider",
                    extra_rule="Each behaviour is replayed twice: in-memory providers and SQLite (file-backed) providers.")
