"""C19: late messages: exact retention window and never a wrong sender."""
from corecheck import run_core
def run(ctx):
    return run_core(ctx, "C19", sim_cfgs=["SIM_storage_r1", "SIM_storage_r2", "SIM_ratchet", "SIM_late"], mc_quick="MC_storage", mc_thorough="MC_storage_deep",
                    harness_flags=[["--single-backend"], ["--single-backend", "--sqlite"]],
                    need_stats=("DeliverApp:ok", "DeliverApp:err:epoch-not-found", "Write:ok"),
                    invariants_note="RetentionExact, FindPrior lookup order (inserts / updates / storage), sender-leaf check (MlsGroup.tla DeliverApp); concrete: a late application message is decrypted exactly when the model says the epoch is retained (retention 1, 2, 3; both providers), stored epoch ids and repository queues equal the model after every step, accepted messages are reported with the true sender")
