"""C04: a rejected message leaves the group exactly as it was."""
from corecheck import run_core
def run(ctx):
    return run_core(ctx, "C04", driver={}, sim_cfgs=["SIM_full", "SIM_psk", "SIM_props"], mc_quick="MC_core_quick", mc_thorough="MC_core_mid",
                    need_stats=("err_state_checks", "DeliverCommit:err", "Commit:err", "DeliverCommit:err:conf-tag", "DeliverCommit:err:rule"),
                    invariants_note="every err:* branch of every action is UNCHANGED on the member (MlsGroup.tla); concrete: order-insensitive full-state comparison (verif_state hook: snapshot components, epoch secrets, repository queues) around every call that returns an error, after which the behaviour continues and the genuine messages must still be accepted as the model says")
