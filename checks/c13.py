"""C13: key schedule, secret tree, PSK and transcript values equal the RFC 9420 formulas."""
import os, json, re
import vlib

def run(ctx):
    tier, seed = ctx["tier"], ctx["seed"]
    wd = vlib.workdir("C13")
    violations = []
    if ctx.get("replay"):
        trace, summ = ctx["replay"], {"claims": 0, "facts": 0, "kinds": {}, "samples": [], "suites": [], "cross_provider_recomputations": 0, "cross_provider_mismatches": []}
    else:
        trace = os.path.join(wd, f"derivations-{tier}.ndjson")
        rc, out, err = vlib.harness(["kstrace", "--out", trace, "--seed", seed, "--scenarios", 20 if tier == "quick" else 500], timeout=3000)
        summ = vlib.last_json(out)
    rows = sum(1 for _ in open(trace))
    r = vlib.tlc("KsTrace", workers=1, timeout=3000, env={"TRACE": trace}, name="kstrace", xmx="12g")
    if not r.ok:
        if r.invariant == "RowOK":
            m = re.findall(r"^/\\ l = (\d+)$", r.out, flags=re.M)
            idx = int(m[-1]) if m else 0
            bad = None
            with open(trace) as f:
                for i, line in enumerate(f, 1):
                    if i == idx:
                        bad = json.loads(line); break
            rp = vlib.replay_path("C13", f"claim{idx}")
            with open(rp, "w") as f:
                # the replay file is a trace: the suite parameters and the offending claim
                with open(trace) as t:
                    meta = None
                    for i, line in enumerate(t, 1):
                        if '"k":"meta"' in line: meta = line
                        if i == idx: break
                f.write((meta or "") + json.dumps(bad) + "\n")
            violations.append({"key": f"claim:{(bad or {}).get('k')}", "what": f"derivation of {(bad or {}).get('k')} (party {(bad or {}).get('party')}, epoch {(bad or {}).get('epoch')}) does not have the RFC 9420 shape: {json.dumps(bad)[:400]}", "replay": rp})
        else:
            raise vlib.ToolError("KsTrace failed:\n" + r.out[-3000:])
    elif r.distinct != rows + 1:
        raise vlib.ToolError(f"trace not fully consumed: {r.distinct} states for {rows} rows")
    for m in summ.get("cross_provider_mismatches", []):
        rp = vlib.replay_path("C13", "xprovider")
        open(rp, "w").write(m)
        violations.append({"key": "cross-provider", "what": "a recorded KDF/hash/MAC call gives different bytes under another shipped provider: " + m, "replay": rp})
    if not ctx.get("replay"):
        for k in ("auth", "export", "msgkey", "cth"):
            if summ["kinds"].get(k, 0) == 0:
                raise vlib.ToolError(f"vacuous run: no claim of kind {k}")
    cov = {"states": r.distinct, "transitions": r.generated, "traces_validated_against_impl": summ.get("scenarios", 1),
           "evaluations": summ["claims"], "distinct_nontrivial": summ["claims"] - summ["kinds"].get("treehash", 0),
           "rule": "every kdf_extract / kdf_expand / hash / mac call of the provider is recorded while real groups run seeded scenarios (2-5 members, add / empty / PSK commits with and without path, joins, exports with random label/context/length, application bursts; random suite and provider); each API-visible value (epoch authenticator, exported secret, message key and nonce passed to aead_seal, confirmed transcript hash) is emitted with its provenance tree and TLC checks the tree against KeySchedule.tla (labels, contexts, length fields, Extract roles, PSK index/count, secret-tree positions via TreeMath, generations). Each claim is distinct (different party/epoch/value).",
           "samples": summ.get("samples", [])[:2] or ["see replay"],
           "claim_kinds": summ["kinds"], "recorded_primitive_calls": summ["facts"], "suites": summ.get("suites"),
           "cross_provider_recomputations": summ.get("cross_provider_recomputations"), "exhaustive": False}
    return {"level": "model_checking", "coverage": cov, "violations": violations,
            "assumptions": ["HMAC/HKDF/hash primitives are trusted as functions (re-evaluated byte for byte with the other shipped providers)",
                            "values whose producer was not recorded (creation epoch, secrets received through HPKE) are accepted as inputs"]}
