"""C01: all members that process the same commits reach the same epoch state."""
from corecheck import run_core
def run(ctx):
    return run_core(ctx, "C01", mc_thorough=["MC_core_mid", "MC_ext"], driver={}, sim_cfgs=["SIM_core", "SIM_tree", "SIM_kem", "SIM_ext"], need_stats=("agreement_pairs", "DeliverCommit:ok", "JoinWelcome:ok", "ApplyPending:ok"),
                    need_shapes=("interior_blank", "unmerged", "no_path_commits", "path_commits"),
                    invariants_note="Agreement, EpochIsChainLength, NoDecapFailure (MlsGroup.tla); concrete: context/tree/authenticator/exporter equality and cross-decryption among all members the model places in one epoch")
