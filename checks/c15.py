"""C15: a failing storage call never loses or corrupts the group."""
from corecheck import run_core
def run(ctx):
    return run_core(ctx, "C15", sim_cfg="SIM_storage", mc_quick="MC_storage", mc_thorough="MC_storage_deep", level="fault_enumeration",
                    harness_flags=[["--single-backend", "--faults"]],
                    need_stats=("storage_faults_injected", "fault:ApplyPending", "fault:DeliverCommit", "fault:Write", "fault:JoinWelcome", "fault:Load"),
                    invariants_note="every operation of every behaviour is executed with its k-th storage call failing, for every k (group state, key package and PSK stores share one call counter): the faulted attempt must return an error and leave member state (verif_state), pending commit and stored history unchanged; the fault-free retry is the step proper and must match the model's projection, repository queues and stored epochs",
                    extra_rule="Fault enumeration: evaluations count replayed steps; replay_stats.storage_faults_injected counts faulted attempts.")
