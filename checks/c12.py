"""C12: the wire codec round-trips, reports exact lengths and never panics on any bytes."""
import os, json, re
import vlib

def run(ctx):
    tier, seed = ctx["tier"], ctx["seed"]
    wd = vlib.workdir("C12")
    violations = []
    trace = ctx.get("replay") or os.path.join(wd, f"codec-{tier}.ndjson")
    if ctx.get("replay"):
        summ = {"prim_rows": 0, "enc_rows": 0, "inputs_probed": 0, "authentic_messages": 0, "accepted_mutants": 0, "violations": [], "samples": [], "kinds": {}, "max_alloc_ratio": 0}
    else:
        rc, out, err = vlib.harness(["codec", "--out", trace, "--seed", seed, "--mutants", 150 if tier == "quick" else 3000,
                                     "--alphabet-len", 3 if tier == "quick" else 4], timeout=3000)
        summ = vlib.last_json(out)
    rows = sum(1 for _ in open(trace))
    r = vlib.tlc("CodecTrace", workers=1, timeout=3000, env={"TRACE": trace}, name="codectrace", xmx="12g")
    if not r.ok:
        if r.invariant == "RowOK":
            m = re.findall(r"^l = (\d+)$", r.out, flags=re.M)
            idx = int(m[-1]) if m else 0
            bad = None
            with open(trace) as f:
                for i, line in enumerate(f, 1):
                    if i == idx:
                        bad = json.loads(line); break
            rp = vlib.replay_path("C12", f"row{idx}")
            open(rp, "w").write(json.dumps(bad) + "\n")
            violations.append({"key": f"row:{(bad or {}).get('k')}:{(bad or {}).get('kind','')}", "what": f"implementation decoder disagrees with the reference grammar (Codec.tla / WireSchema.tla): {json.dumps(bad)[:300]}", "replay": rp})
        else:
            raise vlib.ToolError("CodecTrace failed:\n" + r.out[-3000:])
    elif r.distinct != rows + 1:
        raise vlib.ToolError(f"trace not fully consumed: {r.distinct} states for {rows} rows")
    for v in summ.get("violations", [])[:10]:
        rp = vlib.replay_path("C12", v["kind"])
        open(rp, "w").write(json.dumps(v) + "\n")
        violations.append({"key": v["kind"], "what": v["what"], "replay": rp})
    # --- stored state: for every reachable member state (application traffic with reordering, retained message keys,
    # prior epochs, pending commits, cached proposals) the announced size of each stored part equals its encoded size
    stored = None
    if not ctx.get("replay"):
        from corecheck import gen_behaviours
        import re as _re
        beh = os.path.join(wd, f"stored-{tier}-{seed}.ndjson")
        parts = []
        for c in ("SIM_ratchet", "SIM_storage"):
            depth = int(_re.search(r"Depth = (\d+)", open(os.path.join(vlib.SPEC, c + ".cfg")).read()).group(1))
            part = os.path.join(wd, f"stored-{c}-{tier}-{seed}.ndjson")
            gen_behaviours(c, "MC_core", part, 7, 6 if tier == "quick" else 150, depth, seed, timeout=1500)
            parts.append(part)
        with open(beh, "w") as f:
            for part in parts: f.write(open(part).read())
        rc, out, err = vlib.harness(["replay", "--in", beh, "--seed", seed, "--threads", 14, "--out-dir", os.path.join(vlib.WORK, "replay", "C12")], timeout=3000)
        s1 = vlib.last_json(out)
        stored = {"behaviours": s1["behaviours"], "steps": s1["steps"], "encoded_len_checks": s1["stats"].get("encoded_len_checks", 0),
                  "out_of_order_deliveries": s1["stats"].get("DeliverApp:ok", 0)}
        if stored["encoded_len_checks"] == 0:
            raise vlib.ToolError("vacuous: no stored-state size was checked")
        for v in s1["violations"]:
            if v["kind"] in ("encoded-len", "panic") or "Serialization" in v["what"]:
                violations.append({"key": v["kind"], "what": v["what"], "replay": v.get("replay")})
    cov = {"stored_state_sizes": stored, "states": r.distinct, "transitions": r.generated, "traces_validated_against_impl": 1,
           "evaluations": summ["prim_rows"] + summ["inputs_probed"], "distinct_nontrivial": rows,
           "rule": "(1) every byte string of length <= 3 (thorough 4) over the boundary alphabet {00,01,02,3f,40,41,7f,80,bf,c0,ff} is decoded with the implementation's VarInt, u16, u32, opaque<V>, Vec<u16>, Option<u8> decoders and TLC compares value and bytes consumed with the reference decoders of Codec.tla; (2) length headers written for boundary values are compared with EncVarInt; (3) authentic MLSMessages of every kind (public and private handshake, application, welcome, group info, key package) and their mutants (all truncations and boundary values in the framing region, non-minimal length prefix, trailing byte, random flips/swaps) plus random strings are decoded under catch_unwind with a counting allocator: no panic, bounded allocation, re-encoding equals consumed bytes, mls_encoded_len equals written length; TLC compares accept/reject with the complete schemas of all five wire formats in WireSchema.tla (PublicMessage incl. proposals, commits and update paths, PrivateMessage, Welcome, GroupInfo, KeyPackage). distinct_nontrivial = rows validated by TLC.",
           "samples": summ.get("samples", [])[:2] or ["see replay"], "exhaustive": False,
           "prim_rows": summ["prim_rows"], "inputs_probed": summ["inputs_probed"], "authentic_messages": summ["authentic_messages"],
           "mutants_still_accepted": summ["accepted_mutants"], "max_alloc_per_input_byte": summ.get("max_alloc_ratio"), "message_kinds": summ.get("kinds")}
    return {"level": "model_checking", "coverage": cov, "violations": violations,
            "assumptions": ["universality over all byte strings / all values is sampled, not proved (DESIGN section 8)",
                            "the grammar follows mls-rs where it is deliberately stricter than RFC 9420 (leaf index < 2^24, unique extension types per list, proposal type 0 reserved)"]}
