"""C10: committer-side and receiver-side proposal validation agree."""
import vlib
from corecheck import run_core

def run(ctx):
    # exhaustive input enumeration of the rule set (MC_props.tla): every list of <= 3 (thorough: 4) proposals
    r = vlib.tlc("MC_props", cfg="MC_props" if ctx["tier"] == "quick" else "MC_props_deep", workers=1, timeout=3000, name="mc_props", xmx="8g")
    res = run_core(ctx, "C10", driver={}, sim_cfgs=["SIM_props", "SIM_caps"], mc_quick="MC_core_quick", mc_thorough=["MC_core_mid", "MC_caps"],
                   need_stats=("Commit:ok", "Commit:err:rule", "DeliverCommit:ok", "DeliverCommit:err:rule", "commit_recipient_checks"),
                   invariants_note="MC_props.tla: Theorems (SendImpliesRecv, Legal, by-value offender fails the build, by-reference offender is dropped) over every proposal list of length <= 3/4 from a 13-kind universe x by-value/by-reference x 3 committers on a tree with a blank leaf and an unmerged leaf; MlsGroup.tla: SendImpliesRecv, CommittedListsLegal on every reachable state; concrete: build result, applied list, unused proposals, path flag, every receiver's outcome and resulting tree compared with the model for behaviours rich in add/update/remove/PSK/resumption-PSK/GCE/re-init proposals, expired and identity-rejected key packages, conflicts on one leaf",
                   extra_rule="Input enumeration: " + ("%d" % 0))
    if not r.ok:
        rp = vlib.replay_path("C10", "mc-props-counterexample")
        open(rp, "w").write(r.out[-20000:])
        res["violations"].append({"key": "model:MC_props", "what": "TLC: a proposal list violates the C10 theorems in the model (see counterexample)", "replay": rp})
    res["coverage"]["input_enumeration"] = {"module": "MC_props.tla", "ok": r.ok, "wall_s": round(r.wall, 1),
                                             "lists": "all lists of length <= MaxLen over 29 proposal variants x 3 committers"}
    res["coverage"]["exhaustive"] = False
    return res
