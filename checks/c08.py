"""C08: every reachable ratchet tree is valid and matches the context tree hash."""
from corecheck import run_core
def run(ctx):
    return run_core(ctx, "C08", sim_cfgs=["SIM_core", "SIM_tree", "SIM_kem", "SIM_ext"], need_stats=("epoch_oracles",), need_shapes=("interior_blank", "unmerged"),
                    invariants_note="TreesValid = StructurallyValid (no trailing blank, shape, unmerged-leaf consistency, unique keys/members) on every member's copy; concrete: node-by-node tree comparison, tree hash recomputed from exported nodes by the harness, exported tree + GroupInfo validated by an ExternalClient")
