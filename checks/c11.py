"""C11: pending commits do not change the group until applied; one successor per epoch."""
from corecheck import run_core
def run(ctx):
    return run_core(ctx, "C11", driver={}, sim_cfg="SIM_pending", mc_quick="MC_pending", mc_thorough="MC_pending",
                    need_stats=("Commit:ok", "ClearPending:ok", "ApplyPending:ok", "ApplyDetached:err", "ApplyDetached:ok", "ApplyPending:err:epoch", "CommitDetached:ok", "DeliverCommit:err:epoch", "Commit:err:pending-exists"),
                    invariants_note="PendingOnCurrentEpoch, PendingAppliedOnItsBase (a pending commit that an applied detached commit has overtaken stays, stale and inert), StepsByOne (action property), Agreement on MC_pending (commit / detached commit / clear / apply / own echo / foreign commit / DS choice for 3 racing members); concrete: full-state equality around commit construction (only the pending commit may change), has_pending_commit, stale detached commits must be rejected, own echo vs apply vs peers reach one state (agreement oracles)")
