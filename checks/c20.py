"""C20: tree index arithmetic vs the structural RFC 9420 App. C definitions (TreeMath.tla)."""
import os, json, time
import vlib


def run(ctx):
    tier, seed = ctx["tier"], ctx["seed"]
    wd = vlib.workdir("C20")
    violations = []
    # 1. self-consistency of the reference definitions (TLC evaluates ASSUMEs)
    mc = vlib.tlc("MC_TreeMath", workers=2, timeout=600, name="mc_treemath")
    if not mc.ok:
        raise vlib.ToolError("MC_TreeMath failed:\n" + mc.out[-3000:])
    if ctx.get("replay"):
        trace = ctx["replay"]
        summary = {"rows": sum(1 for _ in open(trace)), "samples": []}
    else:
        trace = os.path.join(wd, f"table-{tier}.ndjson")
        max_log = 12
        pair_log = 7 if tier == "quick" else 9
        samples = 3000 if tier == "quick" else 40000
        rc, out, err = vlib.harness(["treemath", "--out", trace, "--max-log", max_log, "--pair-log", pair_log,
                                     "--samples", samples, "--seed", seed])
        summary = vlib.last_json(out)
        for pr in summary.get("panics", []):
            rp = vlib.replay_path("C20", f"panic-{pr.get('what')}-{pr.get('n')}-{pr.get('a')}")
            json.dump(pr, open(rp, "w"))
            violations.append({"key": f"panic:{pr.get('what')}:{pr.get('n')}:{pr.get('a')}", "what": f"tree arithmetic panicked for {pr}", "replay": rp})
    r = vlib.tlc("TreeMathTrace", workers=1, timeout=3000, env={"TRACE": trace}, name="treemath_trace", xmx="12g")
    bad_row = None
    if not r.ok:
        if r.invariant == "RowOK":
            import re
            m = re.findall(r"^l = (\d+)$", r.out, flags=re.M)
            idx = int(m[-1]) if m else None
            if idx:
                with open(trace) as f:
                    for i, line in enumerate(f, 1):
                        if i == idx:
                            bad_row = json.loads(line); break
            rp = vlib.replay_path("C20", f"row{idx}")
            with open(rp, "w") as f:
                f.write(json.dumps(bad_row) + "\n")
            violations.append({"key": f"row:{bad_row.get('k')}:{bad_row.get('n')}:{bad_row.get('x', bad_row.get('a'))}",
                               "what": f"implementation row disagrees with TreeMath definitions: {json.dumps(bad_row)[:300]}",
                               "replay": rp})
        else:
            raise vlib.ToolError("TreeMathTrace failed:\n" + r.out[-3000:])
    elif r.distinct != summary["rows"] + 1:
        raise vlib.ToolError(f"trace not fully consumed: {r.distinct} states for {summary['rows']} rows")
    cov = {
        "states": r.distinct, "transitions": r.generated, "traces_validated_against_impl": 1,
        "evaluations": summary["rows"], "distinct_nontrivial": summary.get("node_rows", 0) + summary.get("pair_rows", 0),
        "rule": "one row per (leaf count n, node x) for every n = 2^0..2^12 and every x in the tree plus 4 just outside; all leaf pairs "
                "up to 2^7 (quick) / 2^9 (thorough); seeded samples of (n, x) and pairs for n = 2^13..2^24 biased to level boundaries; "
                "BFS order for n <= 2^8; LeafIndex bound rows. Rows are distinct by construction (samples may repeat; counted as generated).",
        "samples": summary.get("samples", [])[:5] or [bad_row],
        "exhaustive": False,
        "node_rows": summary.get("node_rows"), "pair_rows": summary.get("pair_rows"), "bfs_rows": summary.get("bfs_rows"),
        "reference_self_check": "MC_TreeMath ASSUMEs for n <= 2^6 (parent/child/sibling/level/LCA/BFS laws)",
        "checker_cmd": "tlc -config spec/TreeMathTrace.cfg spec/TreeMathTrace.tla (TRACE=table)",
    }
    return {"level": "model_checking", "coverage": cov, "violations": violations,
            "assumptions": ["TLC evaluates the structural definitions correctly", "the verif_hooks re-export calls the crate-private functions unchanged"]}
