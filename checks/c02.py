"""C02: only current members can follow the group; secrets go only to entitled keys."""
from corecheck import run_core
def run(ctx):
    return run_core(ctx, "C02", mc_thorough=["MC_core_mid", "MC_ext"], sim_cfgs=["SIM_core", "SIM_tree", "SIM_kem", "SIM_ext"], need_stats=("commit_recipient_checks", "zombie_feeds", "DeliverCommit:ok:removed"),
                    need_shapes=("removed", "interior_blank"),
                    invariants_note="RecipientsEntitled (MlsGroup.tla); concrete: multiset of HPKE recipients of every commit (recording provider) equals the model's copath-resolution recipients and the added key packages' init keys; retained groups of removed members reject all later traffic unchanged")
