"""C03: any modification or forgery of protocol traffic is rejected."""
from corecheck import run_core
def run(ctx):
    flags = ["--tamper", "8"] if ctx["tier"] == "quick" else ["--tamper", "60"]
    res = run_core(ctx, "C03", sim_cfgs=["SIM_full", "SIM_core"], mc_quick="MC_core_quick", mc_thorough="MC_core_mid",
                   harness_flags=[flags], scale=0.5 if ctx["tier"] == "quick" else 0.25,
                   need_stats=("tamper_rejected", "tamper_probes:DeliverCommit", "tamper_probes:DeliverProposal", "tamper_probes:DeliverApp", "tamper_probes:JoinWelcome"),
                   invariants_note="in MlsGroup.tla a member only ever accepts messages of the delivery-service log, for its own group and epoch (every Deliver* action takes a registry id; epoch / epoch-secret guards; own messages; replays): any other byte string has the verdict 'reject'. On the implementation, before every authentic delivery of every replayed behaviour, modified copies (single-bit flips at random positions, random truncations, splices with other authentic messages of the same kind; thorough adds more) are given to a clone of the receiver in exactly that state: each must be rejected without panic and leave the clone's complete state unchanged; stale / cross-epoch / replayed authentic messages are behaviour steps with model-given verdicts; accepted messages are checked for true sender, payload and authenticated data; before every successful JoinWelcome, modified copies of the Welcome (bit flips, truncations, splices with Welcomes of other commits) and of the out-of-band ratchet tree are offered to the joiner: each must be rejected without panic or -- when the modified bytes are not in the part addressed to this joiner -- produce exactly the member state the authentic Welcome produces",
                   extra_rule="replay_stats.tamper_rejected counts modified messages rejected after decoding; tamper_rejected_by_decoder those rejected by the codec.")
    return res
