"""C07: a joiner ends up with exactly the members' state; a key package is used once."""
from corecheck import run_core
def run(ctx):
    return run_core(ctx, "C07", mc_thorough=["MC_core_mid", "MC_ext"], driver={}, sim_cfgs=["SIM_core", "SIM_tree", "SIM_kem", "SIM_storage", "SIM_ext"], harness_flags=["--faults-write"], need_stats=("JoinWelcome:ok", "agreement_pairs", "kp_deleted_checks", "last_resort_kept_checks", "fault:Write"), need_shapes=("joins", "unmerged"),
                    invariants_note="Agreement, PrivMatchesPub, TreesValid include joiners (JoinWelcome action); concrete: joiner vs member equality oracles, private keys probed against the tree")
