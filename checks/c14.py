"""C14: the shipped crypto providers are interchangeable."""
import os, json, re
import vlib
from corecheck import run_core


def _tlc_lines(out, tag):
    rows = []
    for l in out.splitlines():
        m = re.match(r'<<"%s", "(.*)">>' % tag, l.strip())
        if m:
            rows.append(json.loads(m.group(1).replace('\\"', '"')))
    return rows


def run(ctx):
    tier, seed = ctx["tier"], ctx["seed"]
    wd = vlib.workdir("C14")
    # --- mixed-provider groups: core behaviours replayed with provider mixes (every divergence is a violation)
    res = run_core(ctx, "C14", sim_cfgs=["SIM_core", "SIM_full"], mc_quick="MC_core_quick", mc_thorough="MC_core_mid", scale=0.4,
                   need_stats=("agreement_pairs", "DeliverCommit:ok", "JoinWelcome:ok"),
                   invariants_note="three parts. (1) CryptoContract.tla evaluated by TLC on a table recorded from all shipped providers for every common cipher suite: deterministic primitives (hash, MAC, HKDF extract / expand, AEAD seal / open, KEM key derivation) byte-equal at empty / boundary / long inputs, every ordered provider pair for signatures, signature public key derivation, HPKE base and PSK mode and HPKE contexts, and identical rejection of wrong tags, lengths, malformed keys, other info / PSK. (2) X509.tla: TLC enumerates every chain of <= MaxLen certificates over a universe (two roots, CA / non-CA / second-level intermediates, leaves incl. wrong issuer signature), every anchor set and validation times around every validity boundary, with the reference verdict (accept / reject / any where strict and path-building readings differ); the harness builds the real certificates and records the three validators' verdicts; TLC recomputes the reference for every recorded row (X509Trace) and demands the same verdict from all three and the reference verdict where it is not 'any'. (3) members on different providers in one group: core behaviours replayed with random provider mixes (replay_configs), every oracle of C01")
    mixes = sum(v for k, v in res["coverage"].get("replay_configs", {}).items() if "," in k)
    if mixes == 0:
        raise vlib.ToolError("vacuous: no mixed-provider group was replayed")
    viol = res["violations"]
    # --- (2) X.509
    cfg = "MC_X509" if tier == "quick" else "MC_X509_deep"
    r = vlib.tlc("X509", cfg=cfg, workers=1, timeout=3000, name="x509-cases", xmx="8g")
    if not r.ok:
        raise vlib.ToolError("TLC failed on X509.tla:\n" + r.out[-3000:])
    cases = _tlc_lines(r.out, "CASE")
    uni = _tlc_lines(r.out, "UNIVERSE")[0]
    cf = os.path.join(wd, f"x509-cases-{tier}.json")
    json.dump({"universe": uni, "cases": cases}, open(cf, "w"))
    tf = os.path.join(wd, f"x509-table-{tier}.ndjson")
    rc, out, err = vlib.harness(["x509", "--in", cf, "--out", tf, "--threads", 14], timeout=3000)
    t = vlib.tlc("X509", cfg="X509Trace", workers=1, timeout=3000, env={"X509_TABLE": tf}, name="x509-trace", xmx="8g")
    m = re.search(r'"ROWS", (\d+)', t.out)
    if not m or int(m.group(1)) != len(cases):
        raise vlib.ToolError("X509Trace did not read the table:\n" + t.out[-3000:])
    na = {c["id"]: c["na"] for c in uni}
    bad = _tlc_lines(t.out, "BADROW")
    xstats = {"cases": len(cases), "rows_breaking_the_reference": len(bad), "by_class": {}}
    for c in cases:
        xstats["by_class"][c["class"] + ":" + c["verdict"]] = xstats["by_class"].get(c["class"] + ":" + c["verdict"], 0) + 1
    if not all(k in xstats["by_class"] for k in ("valid:accept", "outside-validity:reject", "wrong-signature:reject", "non-ca-issuer:reject", "no-path:reject", "reordered-or-extra:any")):
        raise vlib.ToolError(f"vacuous X.509 enumeration: {xstats}")
    for b in bad:
        vec = (b["awslc"], b["openssl"], b["rustcrypto"])
        at_end = any(na[c] == b["t"] for c in list(b["chain"]) + list(b["anchors"]))
        if vec == ("reject", "reject", "accept") and at_end:
            key = "F15"
        elif vec == ("accept", "accept", "reject") and b["reference"] == "any":
            key = "F16"
        else:
            key = f"x509:{b['class']}:{'/'.join(vec)}"
        rp = vlib.replay_path("C14", f"x509-{key.replace(':', '-').replace('/', '-')}")
        if not os.path.exists(rp) or key not in ("F15", "F16"):
            json.dump({"universe": uni, "case": b}, open(rp, "w"))
        viol.append({"key": key, "what": f"X.509 chain {b['chain']} with anchors {b['anchors']} at time {b['t']}: awslc={b['awslc']} openssl={b['openssl']} rustcrypto={b['rustcrypto']}, reference verdict {b['reference']} ({b['class']})", "replay": rp})
    # --- (1) primitives
    pf = os.path.join(wd, f"crypto-table-{seed}.ndjson")
    rc, out, err = vlib.harness(["cryptodiff", "--out", pf, "--seed", seed], timeout=3000)
    summ = vlib.last_json(out)
    c = vlib.tlc("CryptoContract", cfg="CryptoContract", workers=1, timeout=1200, env={"CRYPTO_TABLE": pf}, name="crypto-contract")
    m = re.search(r'"ROWS", (\d+), "COVERED", (\w+)', c.out)
    if not m or int(m.group(1)) != summ["rows"]:
        raise vlib.ToolError("CryptoContract did not read the table:\n" + c.out[-3000:])
    if m.group(2) != "TRUE":
        raise vlib.ToolError("vacuous primitive table: CryptoContract!Covered is false")
    badp = _tlc_lines(c.out, "BADROW")
    for b in badp:
        empty_pt = b["input"].startswith("pt0") and b["op"] in ("seal", "hpke_base", "hpke_psk", "hpke_setup") or (b["op"] == "hpke_setup" and b["input"].endswith(":pt0"))
        key = "F20" if empty_pt else f"crypto:{b['op']}:{b['input']}"
        rp = vlib.replay_path("C14", f"crypto-{key.replace(':', '-')}-suite{b['suite']}")
        json.dump(b, open(rp, "w"))
        viol.append({"key": key, "what": f"suite {b['suite']} {b['op']} {b['input']} ({b['kind']}): " + ", ".join(f"{x['by']}={x['status']}" for x in b["results"]), "replay": rp})
    res["coverage"]["x509"] = xstats
    res["coverage"]["primitives"] = {"rows": summ["rows"], "suites": summ["suites"], "rows_breaking_the_contract": len(badp)}
    res["coverage"]["mixed_provider_behaviours"] = mixes
    res["coverage"]["evaluations"] = res["coverage"].get("evaluations", 0) + len(cases) + summ["rows"]
    res["coverage"]["rule"] = (res["coverage"].get("rule", "") + " evaluations also counts X.509 cases (each given to three validators) and primitive table rows.").strip()
    res["assumptions"] = list(res.get("assumptions", [])) + ["certificates are built with the AWS-LC builder (P-256, basic constraints only); key usage, path length, name constraints, EKU and Ed25519/other curves are not varied",
                                                            "primitive inputs are a fixed boundary set per suite (seeded patterns), not all byte strings"]
    return res
