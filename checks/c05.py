"""C05: message keys are single-use: no nonce reuse, no replay, reordering tolerated."""
from corecheck import run_core
def run(ctx):
    return run_core(ctx, "C05", sim_cfgs=["SIM_ratchet", "SIM_late"], mc_quick="MC_storage", mc_thorough="MC_storage_deep",
                    need_stats=("DeliverApp:ok", "DeliverApp:err:replay", "Encrypt:ok", "aead_seals_monitored"),
                    invariants_note="NoGenerationReuse, AtMostOnce (MlsGroup.tla, ratchet with window W, bursts, duplicates, late delivery, reload); concrete: accept/reject of every delivered generation equals the model (window 1024, gaps 1..1026), replay after acceptance rejected, and a recording provider shows no (key, nonce) pair used twice by any aead_seal of the run")
