"""C09: members hold exactly the private keys they are entitled to, matching the tree."""
from corecheck import run_core
def run(ctx):
    return run_core(ctx, "C09", sim_cfgs=["SIM_core", "SIM_tree", "SIM_kem", "SIM_ext"], need_stats=("epoch_oracles", "DeliverCommit:ok"), need_shapes=("unmerged", "path_commits"),
                    invariants_note="PrivMatchesPub (MlsGroup.tla); concrete: set of direct-path positions holding a key equals the model's, each stored key opens an HPKE seal to the public key at that node, path keys are fresh (bijection)")
