"""Shared driver for the properties decided by the core specification MlsGroup.tla:
exhaustive TLC on a bounded instance (all invariants), TLC-simulated behaviours replayed into mls-rs."""
import os, json, hashlib, time, concurrent.futures as cf
import vlib
from tlcparse import replay_lines

SPEC_FILES = ["TreeMath.tla", "RatchetTree.tla", "MlsGroup.tla", "MC_core.tla"]


def spec_hash(extra=()):
    h = hashlib.sha256()
    for f in list(SPEC_FILES) + list(extra):
        h.update(open(os.path.join(vlib.SPEC, f), "rb").read())
    return h.hexdigest()[:16]


def gen_behaviours(cfg, module, out, procs, num, depth, seed, timeout=900, max_per_prefix=2):
    """Run `procs` TLC simulations in parallel (different seeds) and write de-duplicated behaviours."""
    key = f"{spec_hash([cfg + '.cfg'])}-{cfg}-{procs}-{num}-{depth}-{seed}"
    stamp = out + ".key"
    if os.path.exists(out) and os.path.exists(stamp) and open(stamp).read() == key:
        return sum(1 for _ in open(out)), 0.0, True
    t0 = time.time()

    def one(i):
        return vlib.tlc(module, cfg=cfg, workers=1, timeout=timeout, simulate=f"num={num}", depth=depth,
                        seed=seed * 1000 + i, name=f"sim-{cfg}-{i}", xmx="3g")
    with cf.ThreadPoolExecutor(max_workers=procs) as ex:
        results = list(ex.map(one, range(procs)))
    seen = {}
    n = 0
    with open(out, "w") as f:
        for r in results:
            if r.rc != 0 and "REPLAY" not in r.out:
                raise vlib.ToolError(f"TLC simulation failed for {cfg}:\n" + r.out[-3000:])
            if r.invariant and r.invariant != "EmitAtDepth":
                raise vlib.Violation("model", f"simulation found a violated invariant {r.invariant} in {cfg}:\n" + r.out[-4000:])
            lines = list(replay_lines(r.out))
            for idx, b in enumerate(lines):
                steps = b["steps"]
                # the first half of a trace is kept only if the trace died before reaching its full depth
                if idx + 1 < len(lines) and len(lines[idx + 1]["steps"]) > len(steps) and lines[idx + 1]["steps"][:len(steps)] == steps:
                    continue
                pk = hashlib.sha1(json.dumps(steps[:-1], sort_keys=True).encode()).hexdigest()
                seen[pk] = seen.get(pk, 0) + 1
                if seen[pk] > max_per_prefix:
                    continue
                f.write(json.dumps(b) + "\n")
                n += 1
    open(stamp, "w").write(key)
    return n, time.time() - t0, False


def behaviour_shapes(path):
    """witness counters (vacuity guards) computed from the behaviours themselves"""
    w = {"interior_blank": 0, "unmerged": 0, "max_epoch": 0, "max_leaves": 0, "removed": 0, "joins": 0, "no_path_commits": 0,
         "path_commits": 0, "receiver_unmerged_at_decap": 0}
    for line in open(path):
        b = json.loads(line)
        for s in b["steps"]:
            t = s["post"].get("tree")
            if t:
                if any(n["t"] == "B" for n in t[::2]): w["interior_blank"] += 1
                if any(n["t"] == "P" and n["um"] for n in t): w["unmerged"] += 1
                w["max_leaves"] = max(w["max_leaves"], (len(t) + 1) // 2)
                w["max_epoch"] = max(w["max_epoch"], s["post"].get("epoch", 0))
            if s["a"] == "DeliverCommit" and s["res"] == "ok:removed": w["removed"] += 1
            if s["a"] == "JoinWelcome" and s["res"] == "ok": w["joins"] += 1
            if s["a"] == "Commit" and s["res"] == "ok":
                w["path_commits" if s["out"].get("path") else "no_path_commits"] += 1
    return w


def sample_behaviour(path, maxsteps=12):
    for line in open(path):
        b = json.loads(line)
        return {"cfg": b["cfg"], "steps": [{k: s[k] for k in ("a", "p", "args", "res")} for s in b["steps"][:maxsteps]],
                "note": f"first {maxsteps} of {len(b['steps'])} steps; every step also carries the expected projection"}
    return None


def run_core(ctx, prop, need_stats=(), need_shapes=(), sim_cfg="SIM_core", mc_quick="MC_core_quick", mc_thorough="MC_core_mid",
             invariants_note="", extra_rule="", harness_flags=(), sim_cfgs=None, scale=1.0, level="model_checking", driver=None):
    tier, seed = ctx["tier"], ctx["seed"]
    wd = vlib.workdir(prop)
    violations = []
    # --- 1. exhaustive bounded model checking of the invariants
    mc_cfgs = mc_quick if tier == "quick" else mc_thorough
    mc_cfgs = [mc_cfgs] if isinstance(mc_cfgs, str) else list(mc_cfgs)
    mc_runs = []
    for mc_cfg in mc_cfgs:
        mc = vlib.tlc("MC_core", cfg=mc_cfg, workers=6 if tier == "quick" else 12, timeout=1200 if tier == "quick" else 6000,
                      coverage=False, name=f"{prop}-mc", xmx="10g")
        if mc.invariant:
            rp = vlib.replay_path(prop, "model-counterexample")
            open(rp, "w").write(mc.out[-20000:])
            violations.append({"key": f"model:{mc.invariant}", "what": f"TLC: invariant {mc.invariant} violated in {mc_cfg} (specification-level counterexample)", "replay": rp})
        elif not mc.ok:
            raise vlib.ToolError(f"TLC failed on {mc_cfg}:\n" + mc.out[-3000:])
        mc_runs.append({"config": mc_cfg, "distinct_states": mc.distinct, "transitions": mc.generated, "depth": mc.depth})
    mc_cfg = "+".join(mc_cfgs)
    mc.distinct = sum(r["distinct_states"] or 0 for r in mc_runs); mc.generated = sum(r["transitions"] or 0 for r in mc_runs)
    zero = [a for a in mc.coverage_zero_actions() if a not in ("SimNext", "Progress", "SimOther")]
    # --- 2. behaviours from the specification
    if ctx.get("replay"):
        beh = ctx["replay"]
        nb, gen_s, cached = sum(1 for _ in open(beh)), 0.0, True
    else:
        procs, num = (14, max(2, int(16 * scale))) if tier == "quick" else (14, max(4, int(400 * scale)))
        cfgs = sim_cfgs or [sim_cfg]
        beh = os.path.join(vlib.workdir("core"), f"behaviours-{'+'.join(cfgs)}-{tier}-{seed}-{scale}.ndjson")
        import re as _re
        parts, jobs = [], []
        per = max(2, procs // len(cfgs))
        for c in cfgs:
            depth = int(_re.search(r"Depth = (\d+)", open(os.path.join(vlib.SPEC, c + ".cfg")).read()).group(1))
            part = os.path.join(vlib.workdir("core"), f"behaviours-{c}-{tier}-{seed}-{scale}-{len(cfgs)}.ndjson")
            parts.append(part)
            jobs.append((c, part, per, num, depth))
        # all configurations are generated concurrently (each with its own TLC processes)
        with cf.ThreadPoolExecutor(max_workers=len(jobs)) as ex:
            outs = list(ex.map(lambda j: gen_behaviours(j[0], "MC_core", j[1], j[2], j[3], j[4], seed, timeout=1500 if tier == "quick" else 6000), jobs))
        nb = sum(o[0] for o in outs); gen_s = max(o[1] for o in outs); cached = all(o[2] for o in outs)
        with open(beh, "w") as f:
            for part in parts:
                f.write(open(part).read())
    # --- 2b. direction 2: sequences recorded from the real library by the harness's random driver (which owes
    # nothing to TLC's simulation) are followed through the specification; a recorded outcome the specification
    # does not give is a violation; the specification's behaviour for each sequence joins the replay set
    drv_stats = None
    if driver is not None and not ctx.get("replay"):
        import followlib
        feats = driver.get("features", ["apps", "storage", "custom", "gce", "extcommit"])
        num = driver.get("num_quick", 24) if tier == "quick" else driver.get("num_thorough", 600)
        drv = os.path.join(vlib.workdir("core"), f"driver-{prop}-{tier}-{seed}.ndjson")
        rc, out, err = vlib.harness(["drive", "--out", drv, "--seed", seed, "--num", num, "--len", driver.get("len", 80), "--parties", driver.get("parties", 5),
                                     "--features", ",".join(feats)], timeout=1800)
        recs = [followlib.normalise(json.loads(l)) for l in open(drv) if l.strip()]
        res, r = followlib.follow_batch(recs, features=feats + ["badkp"], workers=8, timeout=1500)
        drv_stats = {"recorded_sequences": len(recs), "recorded_steps": sum(len(b["steps"]) for b in recs), "followed_steps": 0, "fully_followed": 0, "outcome_mismatches": 0}
        with open(beh, "a") as f:
            for i, (b, (k, model)) in enumerate(zip(recs, res)):
                if k < 0:
                    raise vlib.ToolError("Follow.tla failed:\n" + r.out[-3000:])
                drv_stats["followed_steps"] += k
                if model is None:
                    continue   # a step the specification's generator restrictions exclude: the prefix is not replayed
                drv_stats["fully_followed"] += 1
                model.pop("bi", None); model["opts"] = b.get("opts")
                for j, (ms, rs) in enumerate(zip(model["steps"], b["steps"])):
                    if "res_impl" in rs and not followlib.res_same(ms["res"], rs["res_impl"]):
                        drv_stats["outcome_mismatches"] += 1
                        rp = vlib.replay_path(prop, f"recorded-{seed}-{i}")
                        mm = dict(model); mm["steps"] = model["steps"][:j + 1]
                        json.dump(mm, open(rp, "w"))
                        violations.append({"key": "trace-validation", "what": f"recorded {ms['a']} by {ms['p']} returned {rs['res_impl']} in the implementation; the specification gives {ms['res']} for the recorded sequence (step {j})", "replay": rp})
                        break
                f.write(json.dumps(model) + "\n"); nb += 1
        if drv_stats["followed_steps"] * 2 < drv_stats["recorded_steps"]:
            raise vlib.ToolError(f"vacuous trace validation: {drv_stats}")
    if nb == 0:
        raise vlib.ToolError("no behaviours generated")
    shapes = behaviour_shapes(beh)
    # --- 3. replay into the implementation
    summ = None
    for flags in (harness_flags if harness_flags and isinstance(harness_flags[0], (list, tuple)) else [list(harness_flags)]):
        rc, out, err = vlib.harness(["replay", "--in", beh, "--seed", seed, "--threads", 16, "--out-dir", os.path.join(vlib.WORK, "replay", prop)] + list(flags),
                                    timeout=3000)
        s1 = vlib.last_json(out)
        if summ is None:
            summ = s1
        else:   # merge runs (e.g. in-memory and SQLite providers)
            summ["behaviours"] += s1["behaviours"]; summ["steps"] += s1["steps"]
            summ["distinct_states"] = max(summ["distinct_states"], s1["distinct_states"])
            for k, v in s1["stats"].items(): summ["stats"][k] = summ["stats"].get(k, 0) + v
            for k, v in s1["configs"].items(): summ["configs"][k + "".join(flags)] = v
            summ["violations"] += s1["violations"]
    # --- 3b. regression: the stored replay of every finding of this property that was repaired in /repo is replayed
    # again (a fixed entry suppresses nothing: if the defect returns, it is reported)
    regress = []
    if not ctx.get("replay"):
        for k in vlib.known_findings().get("fixed", []):
            fp = os.path.join(vlib.VERIF, k.get("replay", ""))
            if k.get("property") != prop or not os.path.isfile(fp):
                continue
            try:
                lines = [json.loads(l) for l in open(fp) if l.strip()] if fp.endswith(".ndjson") else [json.load(open(fp))]
            except Exception:
                continue
            for b in lines:
                if isinstance(b, dict) and "steps" in b:
                    regress.append((k["id"], b))
        if regress:
            rf = os.path.join(vlib.workdir("core"), f"regress-{prop}.ndjson")
            with open(rf, "w") as f:
                for _, b in regress:
                    f.write(json.dumps({kk: vv for kk, vv in b.items() if kk != "violation"}) + "\n")
            flagsets = (harness_flags if harness_flags and isinstance(harness_flags[0], (list, tuple)) else [list(harness_flags)])
            for flags in flagsets:
                rc, out, err = vlib.harness(["replay", "--in", rf, "--seed", seed, "--threads", 4, "--out-dir", os.path.join(vlib.WORK, "replay", prop + "-regress")] + list(flags), timeout=600)
                s1 = vlib.last_json(out)
                for v in s1["violations"]:
                    v["what"] = v["what"] + " [regression replay of repaired findings " + ",".join(sorted({r[0] for r in regress})) + "]"
                summ["violations"] += s1["violations"]
                summ["stats"]["regression_behaviours"] = summ["stats"].get("regression_behaviours", 0) + s1["behaviours"]
    # Every divergence between the specification's behaviour and the implementation found while replaying this
    # property's behaviours is reported: the property is decided through the specification, and a step where the
    # code leaves it invalidates the run whatever oracle noticed it first (native attribution kept in the text).
    for v in summ["violations"]:
        tag = "" if prop in v["props"] else f" [oracle of {'/'.join(v['props'])}]"
        violations.append({"key": f"{v['kind']}", "what": v["what"] + tag, "replay": v.get("replay")})
    others = [v for v in summ["violations"] if prop not in v["props"]]
    # named deviations (known findings the model follows, MlsGroup.tla Deviations): steps of the replayed
    # behaviours that exercised one are reported by the check of the property the finding belongs to
    import re as _re2
    dev_steps = {}
    for line in open(beh):
        for st in json.loads(line)["steps"]:
            m = _re2.search(r":(F\d+)$", st["res"])
            if m:
                dev_steps[m.group(1)] = dev_steps.get(m.group(1), 0) + 1
    for k in vlib.known_findings().get("known", []):
        if k.get("property") == prop and dev_steps.get(k["key"], 0) > 0:
            violations.append({"key": k["key"], "what": k["what"], "replay": os.path.join(vlib.VERIF, k.get("replay", ""))})
    # --- 4. vacuity guards: the mechanism behind the property must have been exercised
    for k in need_stats:
        if not any(s.startswith(k) and n > 0 for s, n in summ["stats"].items()):
            if not summ["violations"]:
                raise vlib.ToolError(f"vacuous run: replay never exercised '{k}' ({summ['stats']})")
    vac = [k for k in need_shapes if shapes.get(k, 0) == 0]
    if need_shapes and len(vac) == len(need_shapes) and not ctx.get("replay"):
        raise vlib.ToolError(f"vacuous run: behaviours reached none of the shapes {need_shapes} ({shapes})")
    cov = {
        "states": mc.distinct, "transitions": mc.generated, "traces_validated_against_impl": summ["behaviours"],
        "evaluations": summ["steps"], "distinct_nontrivial": summ["distinct_states"],
        "rule": "TLC explores MlsGroup.tla exhaustively on the bounded instance " + mc_cfg + " (all invariants) and generates random behaviours of "
                + "+".join(sim_cfgs or [sim_cfg]) + " (weighted towards protocol progress, see MC_core.tla SimNext); every behaviour is replayed step by step into real "
                "mls-rs Groups (random cipher suite / provider mix / commit options per behaviour); evaluations = replayed steps, "
                "distinct_nontrivial = distinct projected member states (epoch, leaf, tree shape, key positions, cache) seen in the implementation. " + extra_rule,
        "samples": [sample_behaviour(beh)],
        "exhaustive": False,
        "model_runs": mc_runs, "model_config": mc_cfg, "model_depth": mc.depth, "model_actions_never_taken": zero,
        "trace_validation": drv_stats, "behaviour_shapes": shapes, "replay_stats": summ["stats"], "replay_configs": summ["configs"],
        "violations_attributed_to_other_properties": [{"props": v["props"], "kind": v["kind"], "what": v["what"][:200]} for v in others[:5]],
        "invariants": invariants_note, "shapes_not_reached_this_run": vac,
        "tlc_sim_wall_s": round(gen_s, 1), "behaviours_cached": cached, "named_deviation_steps": dev_steps,
    }
    return {"level": level, "coverage": cov, "violations": violations,
            "assumptions": ["symbolic (Dolev-Yao) cryptography in the model", "bounded instance for exhaustive checking; larger instances sampled by simulation",
                            "at most one by-reference add and one by-reference remove per leaf and epoch (hash-map order of the proposal cache)"]}
