"""C18: a PSK commit binds the new epoch to knowledge of the PSK."""
from corecheck import run_core
def run(ctx):
    return run_core(ctx, "C18", sim_cfg="SIM_psk", mc_quick="MC_core_quick", mc_thorough="MC_core_mid",
                    need_stats=("DeliverCommit:err:conf-tag", "DeliverCommit:err:rule", "DeliverCommit:ok", "JoinWelcome:err", "JoinWelcome:ok"),
                    invariants_note="PSK stores of all parties are drawn per behaviour (each id: none / value a / value b); a PSK commit's epoch is reached exactly by the members holding the committer's value for every external PSK and retaining every referenced resumption epoch (MlsGroup.tla DeliverCommit pskSame / rpskOk, JoinWelcome pskKnown); all others must reject and stay unchanged (C04 comparison); concrete: outcome per member, authenticator equality classes through the secret bijection")
